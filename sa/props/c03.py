"""C03 Accepted programs always compile to well-typed 1->1 Simplicity."""
import re
from ..core import sv, walk
from ..util import *
from .. import guards
from .layout import S

EXPLANATION = ('Decides (R03.1) the binder-uniqueness contradiction: the typing scope keeps the last insertion of a name while code generation finds '
               'the first occurrence in the pattern, so every site that inserts more than one binder at a time must be fed by the duplicate '
               'detector Pattern::is_of_type; (R03.2) the typing checks code generation relies on are present with their exact predicates '
               '(decision tables of the analysis functions, shared with C04); (R03.3) every panic-capable site reachable from instantiate/commit '
               'is discharged (shared engine with C06); (R03.4) Error::CannotCompile is produced only by the conversion from a Simplicity type '
               'error, and the fallible combinator calls of compile.rs are enumerated. Totality of Simplicity unification is not decided.')
NOT_DECIDED = ['totality of unification inside simplicity-lang for the schema terms', 'commit().expect("1 -> 1") rests on inference in the dependency']
ASSUMPTIONS = ['PairBuilder invariant (source type is a product of variables) makes pair infallible, enforced by the private tuple field']

TYPING = re.compile(r'^(<ast::(Assignment|Call|CallName|Expression|Function|Match|SingleExpression|Statement|Item) as ast::AbstractSyntaxTree>::analyze(::\w+)?|pattern::Pattern::is_of_type|ast::Scope::(insert_variable|get_variable|insert_function|get_function|resolve|insert_alias)|ast::Program::analyze|value::(UIntValue::(parse_\w+|u1|u2|u4)|Value::parse_hexadecimal)|TemplateProgram::(new|instantiate))$')


def r_binders(ctx, rid):
    ctx.rule(rid, 'binder uniqueness: every insert_variable site inserting several binders is fed from Pattern::is_of_type (the only duplicate detector); single-binder sites insert one fresh name into a fresh scope or re-insert the looked-up name')
    fx = ctx.facts()
    sites = fx.callers_of('ast::Scope::insert_variable')
    ctx.floor(rid, 'insert_variable call sites', len(sites), 3)
    seen_fns = {}
    for f, bid, c, t in sites:
        seen_fns.setdefault(f.path, []).append(t['line'])
    for path, lines in sorted(seen_fns.items()):
        fn = fx.F[path]
        verdict = None
        detail = None
        fed = loops = 0
        for kind, p, ret in explore(ctx, fn, max_visits=2):
            ins = event_calls(p, 'ast::Scope::insert_variable')
            for e in ins:
                src = e[2][1]
                if calls_in(src, 'pattern::Pattern::is_of_type'):
                    fed += 1
                elif 'as_typed_variable' in S(src) and S(src).endswith('.0'):
                    # the single binder of a match arm: one name into the scope that was pushed just before
                    scope_ev = [x for x in event_calls(p) if x[1].startswith('ast::Scope::') and x[1].split('::')[-1] in ('push_scope', 'pop_scope', 'insert_variable')]
                    k = [i2 for i2, x in enumerate(scope_ev) if x is e][0]
                    ok = k > 0 and scope_ev[k - 1][1].endswith('push_scope')
                    fed += 1 if ok else 0
                    if not ok:
                        verdict, detail = False, 'match-arm binder %s is not inserted into a freshly pushed scope' % S(src)
                elif any(g[2][1] == src for g in event_calls(p, 'ast::Scope::get_variable')):
                    fed += 1      # re-insertion of the name that was just looked up (variable expression)
                else:
                    verdict, detail = False, 'insert_variable(%s) is not fed by Pattern::is_of_type: duplicate names would be accepted (typing keeps the last binding, code generation finds the first)' % S(src)
        if verdict is None:
            verdict = fed > 0
        ctx.ob(rid, 'insert-site:' + path, verdict, 'binders inserted in %s cannot contain duplicates' % path, fn.where(lines[0]), detail)
    # is_of_type is the duplicate detector
    fn = ctx.anchor(fx, 'pattern::Pattern::is_of_type')
    ok = False
    for kind, p, ret in explore(ctx, fn, max_visits=1):
        if kind == 'RET' and err_variants(ret) == ['VariableReuseInPattern']:
            ok = any(l == 'Occupied' for w, l in p.conds)
    ctx.ob(rid, 'duplicate-detector', ok, 'Pattern::is_of_type rejects a name bound twice (Occupied entry ⇒ VariableReuseInPattern)', fn.where())


def r_cannot_compile(ctx):
    rid = 'R03.4'
    ctx.rule(rid, 'Error::CannotCompile is constructed only by From<simplicity::types::Error>; fallible combinator constructions (comp/case/unify) of code generation are enumerated')
    fx = ctx.facts()
    makers = set()
    for path, fn in fx.F.items():
        if fn.macro:
            continue
        for b in fn.blocks.values():
            if b['cleanup']:
                continue
            for st in b['stmts']:
                if st['rv']['k'] == 'agg' and st['rv']['kind'] == 'adt:error::Error::CannotCompile':
                    makers.add(path)
    ctx.ob(rid, 'makers', makers == {'<error::Error as std::convert::From<simplicity::types::Error>>::from'}, 'CannotCompile constructed only in the From impl (found %s)' % sorted(makers))
    n = 0
    per = {}
    for path, fn in fx.F.items():
        if not path.startswith('compile::') or fn.macro:
            continue
        for bid, c, t in fn.calls():
            last = c.split('::')[-1]
            if (c.startswith('named::PairBuilder') and last == 'comp') or (('CoreConstructible' in c) and last in ('comp', 'case')) or (last == 'unify' and 'Context' in c):
                n += 1
                per[path.split('::', 1)[1]] = per.get(path.split('::', 1)[1], 0) + 1
    ctx.ob(rid, 'fallible-constructions', n >= 16, '%d fallible combinator constructions in compile.rs: %s' % (n, per))
    ctx.floor(rid, 'fallible combinator constructions', n, 16)


def check(ctx):
    r_binders(ctx, 'R03.1')
    from . import c04
    n, f = c04.table_rule(ctx, 'R03.2', lambda p: bool(TYPING.match(p)), 'the typing functions code generation relies on', guards.GUARD_FIELDS)
    ctx.floor('R03.2', 'typing functions', f, 20)
    # width / range / power-of-two helpers the literal and type checks delegate to: a wrong helper value admits a program that cannot be compiled
    c04.group_rule(ctx, 'R03.2a', guards.ACCESSORS, 'structural accessors (children of tree nodes in order, type deconstructors, variant-to-variant tables)', 40)
    c04.table_rule(ctx, 'R03.2h', lambda p: bool(c04.HELP.match(p)), 'predicate helpers of the typing functions (returned values compared as well)')
    r_cannot_compile(ctx)
    from . import c08, c09
    c08.r_equations(ctx)
    c08.r_wiring(ctx)
    c09.r_equations(ctx)
    c09.r_stack(ctx)
    # preconditions the panic-site discharges of the instantiate path cite: the admitted counter widths (for_while's index arithmetic)
    # and the push/pop pairing of the scope stacks (expect("Stack is empty") in compile::Scope)
    c09.r_call_site(ctx)
    from . import c10
    c10.r_pairing(ctx)
    c04.r_zip(ctx, 'R03.6')
    # values that enter the program at instantiation (arguments) are built by the layout constructors: a mis-built value
    # does not unify with the declared type
    from . import c07 as c07_
    c07_.r_layout_tables(ctx, 'R03.7', c07_.LAYOUT_CONSTRUCT, 20)
    from . import c06
    c06.panic_rule(ctx, 'R03.3', entries=['TemplateProgram::instantiate', 'CompiledProgram::commit'], what='instantiate/commit')
    from . import c12
    c12.r_instantiate_gate(ctx, 'R03.5')
    c12.r_parameters(ctx)           # every Parameter node was recorded by insert_parameter (discharge of get_argument's expect)
    from . import c01
    c01.schema_rules(ctx, only={'compile::<impl ast::Program>::compile': r''})      # main compiled in the unit environment at unit type (commit().expect)
    c12.r_argument_scopes(ctx)      # the rest of the discharge of get_argument's expect: every scope holds the checked arguments
    if ctx.tier == 'thorough':
        from .. import witness
        witness.run(ctx, 'R03.W', ['W2'])
