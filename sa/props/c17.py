"""C17 Names are opaque: renaming and layout never change meaning."""
import re
from ..core import sv, walk
from ..util import *
from ..grammar import Grammar, IDC, ALPHA, DIGIT

EXPLANATION = ('Decides on the pest grammar AST (R17.1) keyword capture: for every position where an identifier-like rule is expected, no earlier '
               'ordered-choice alternative consisting only of keyword literals and no negative look-ahead in front of the identifier can match a '
               'proper prefix of an identifier (the trailing guard must exclude every identifier character); (R17.0) the identifier rules have '
               'exactly the shape [A-Za-z][A-Za-z0-9_]*; on MIR (R17.2) names are built from the matched text unchanged and inspected as raw strings '
               'only at a frozen set of sites ("main", jet lookup, serde); (R17.3) parenthesised expressions are transparent in analysis and code '
               'generation. Run-time invariance under renaming is not decided.')
NOT_DECIDED = ['run-time invariance under consistent renaming / alias substitution (follows from R17.2 plus C01, not mechanised)', 'pest runtime behaviour']
ASSUMPTIONS = ['pest PEG semantics: ordered choice commits to the first succeeding alternative; negative look-ahead consumes nothing']

# tiny positive example: must be reported on every run (the rule's expected count on the real grammar is zero)
SELFTEST = [
    {'name': 'identifier', 'ty': 'atomic', 'e': {'k': 'seq', 'a': {'k': 'ident', 'v': 'ASCII_ALPHA'}, 'b': {'k': 'rep', 'e': {'k': 'choice', 'a': {'k': 'ident', 'v': 'ASCII_ALPHANUMERIC'}, 'b': {'k': 'str', 'v': '_'}}}}},
    {'name': 'kw', 'ty': 'atomic', 'e': {'k': 'seq', 'a': {'k': 'choice', 'a': {'k': 'str', 'v': 'into'}, 'b': {'k': 'str', 'v': 'dbg'}}, 'b': {'k': 'neg', 'e': {'k': 'ident', 'v': 'ASCII_ALPHANUMERIC'}}}},
    {'name': 'fname', 'ty': 'normal', 'e': {'k': 'seq', 'a': {'k': 'neg', 'e': {'k': 'ident', 'v': 'kw'}}, 'b': {'k': 'ident', 'v': 'identifier'}}},
    {'name': 'tru', 'ty': 'atomic', 'e': {'k': 'str', 'v': 'true'}},
    {'name': 'expr', 'ty': 'normal', 'e': {'k': 'choice', 'a': {'k': 'ident', 'v': 'tru'}, 'b': {'k': 'ident', 'v': 'identifier'}}},
]


def r_capture(ctx):
    rid = 'R17.1'
    ctx.rule(rid, 'keyword capture: no look-ahead / literal-only earlier alternative may match a proper prefix of an identifier in a naming role')
    g = Grammar(ctx.facts().grammar)
    # self test
    pos, fnd = Grammar(SELFTEST).keyword_capture()
    st = {(f[0], f[3]) for f in fnd}
    ctx.ob(rid, 'selftest', st == {('lookahead', 'into'), ('lookahead', 'dbg'), ('choice', 'true')} and all(f[4] == '_' for f in fnd if f[0] == 'lookahead'),
           'the analysis reports the three captures of the embedded example grammar', None, str(sorted(st)))
    # identifier shape
    ids = g.ident_rules()
    ctx.ob('R17.0', 'ident-rules', set(ids) >= {'identifier', 'witness_name'}, 'identifier-like rules found: %s' % ids)
    ctx.rule('R17.0', 'identifier and witness_name match exactly [A-Za-z][A-Za-z0-9_]*')
    for n in ('identifier', 'witness_name'):
        sh = g.ident_shape(n)
        ctx.ob('R17.0', 'shape:' + n, sh is not None and sh[0] == ALPHA and sh[1] == IDC, '%s = ASCII_ALPHA ~ (ASCII_ALPHANUMERIC | "_")*' % n, 'src/minimal.pest (%s)' % n)
    pos, fnd = g.keyword_capture()
    ctx.floor(rid, 'competitor positions (look-aheads / earlier literal alternatives before a naming role)', len(pos), 5)
    roles = {p[3] for p in pos}
    bad = {}
    for kind, rule, desc, w, free in fnd:
        bad.setdefault((kind, rule, desc), []).append((w, free))
    for p in pos:
        k = (p[0], p[1], p[2])
        caps = bad.get(k, [])
        if caps:
            for w, free in caps:
                ctx.ob(rid, 'capture:%s:%s:%s:%s' % (p[0], p[1], p[2], w), False,
                       'identifiers `%s` + one of [%s] + … are captured by %s `%s` in rule %s (expected role: %s)' % (w, free if len(free) < 12 else free[:10] + '…', p[0], p[2], p[1], p[3]),
                       'src/minimal.pest (%s)' % p[1])
        else:
            ctx.ob(rid, 'position:%s:%s:%s' % k, True, '%d keyword literals at this position are all bounded by a guard excluding [A-Za-z0-9_]' % p[4], 'src/minimal.pest (%s)' % p[1])
    for kind, rule, desc, w, free in fnd:
        if kind == 'lookahead-opaque':
            ctx.ob(rid, 'opaque-lookahead:%s:%s' % (rule, desc), False, 'look-ahead `%s` in front of an identifier cannot be summarised as keyword literals' % desc, 'src/minimal.pest (%s)' % rule)
    # reserved-word rules used as look-aheads must each be atomic (no implicit whitespace inside a keyword)
    for n in ('builtin_type', 'builtin_function', 'builtin_alias'):
        r = g.G.get(n)
        ctx.ob(rid, 'atomic:' + n, r is not None and r['ty'] in ('atomic', 'compound'), 'reserved-word rule %s is atomic' % n, 'src/minimal.pest (%s)' % n)


def r_names_raw(ctx):
    rid = 'R17.2'
    fx = ctx.facts()
    ctx.rule(rid, 'names are opaque strings: built from the matched text unchanged; raw string access (as_inner) only at frozen sites')
    allowed = {
        '<ast::Function as ast::AbstractSyntaxTree>::analyze': 'comparison with the exact word "main"',
        '<ast::CallName as ast::AbstractSyntaxTree>::analyze': 'jet lookup by exact name (Elements::from_str)',
    }
    n = 0
    for wrapper in ('FunctionName', 'Identifier', 'WitnessName', 'JetName', 'AliasName', 'ModuleName'):
        for f, bid, c, t in fx.callers_of('str::%s::as_inner' % wrapper):
            if f.macro:
                continue
            if re.match(r'^<str::%s as std::fmt::(Display|Debug)>::fmt$' % wrapper, f.path):
                continue   # the wrapper printing its own text
            n += 1
            ctx.saw(f)
            ctx.ob(rid, 'as_inner:%s:%s' % (wrapper, f.path), f.path in allowed, 'raw access to a %s in %s%s' % (wrapper, f.path, ' (' + allowed[f.path] + ')' if f.path in allowed else ''), f.where(t['line']))
    ctx.floor(rid, 'as_inner call sites on names', n, 2)
    # "main" comparison is whole-string equality
    fa = ctx.anchor(fx, '<ast::Function as ast::AbstractSyntaxTree>::analyze')
    cmp_ok = False
    for bid, c, t in deep_calls(fx, fa):
        if re.search(r'::(ne|eq)$', c) and 'str' in t['f'].get('inst', ''):
            cmp_ok = True
    ctx.ob(rid, 'main:whole-string', cmp_ok and not fa.call_sites(lambda c: re.search(r'::(starts_with|ends_with|contains|find|eq_ignore_ascii_case|to_lowercase|to_ascii_lowercase|trim\w*)$', c) is not None),
           '`main` is recognised by whole-string ==/!= (no prefix/case-insensitive test)', fa.where())
    # constructors from parse: from_str_unchecked(pair.as_str())
    m = 0
    for f in fx.find(r'^<str::(FunctionName|Identifier|WitnessName|JetName|AliasName|ModuleName) as parse::PestParse>::parse$'):
        ok = False
        for kind, p, ret in explore(ctx, f):
            if kind != 'RET':
                continue
            c = calls_in(ret, 'from_str_unchecked')
            if c:
                arg = c[0][2][0]
                inner = calls_in(arg)
                names = [x[1].split('::')[-1] for x in inner]
                ok = names and all(nm in ('as_str', 'strip_prefix', 'unwrap', 'expect') for nm in names) and 'as_str' in names
                bad = [nm for nm in names if nm not in ('as_str', 'strip_prefix', 'unwrap', 'expect')]
                m += 1
                ctx.ob(rid, 'ctor:' + f.path, bool(ok), 'name = matched text of the pair (no trimming / case folding): %s' % sv(arg), f.where())
    ctx.floor(rid, 'name constructors in the parser', m, 3)
    # no string transformation functions anywhere on name types
    deny = re.compile(r'::(to_lowercase|to_uppercase|to_ascii_lowercase|to_ascii_uppercase|eq_ignore_ascii_case|make_ascii_lowercase|make_ascii_uppercase)$')
    for f, bid, c, t in fx.callers_of(lambda c: deny.search(c) is not None):
        if not f.macro:
            ctx.ob(rid, 'case-folding:' + f.path, False, 'case folding call %s' % c, f.where(t['line']))


def r_parens(ctx):
    rid = 'R17.3'
    fx = ctx.facts()
    ctx.rule(rid, 'a parenthesised expression is analysed at the context type and compiled to the inner expression\'s term unchanged')
    an = ctx.anchor(fx, '<ast::SingleExpression as ast::AbstractSyntaxTree>::analyze')
    n = 0
    for kind, p, ret in explore(ctx, an):
        if kind != 'RET' or ret_kind(ret) != 'ok':
            continue
        arm = [l for w, l in p.conds if sv(w).endswith('inner(from)') or 'inner(' in sv(w)]
        if not p.conds or p.conds[0][1] != 'Expression':
            continue
        n += 1
        calls = event_calls(p, 'analyze')
        ok = len(calls) == 1 and calls[0][1] == '<ast::Expression as ast::AbstractSyntaxTree>::analyze' and calls[0][2][1] == ('param', 1, 'ty') and len(p.conds) == 1
        ctx.ob(rid, 'analyze:paren', ok, 'Expression(e) => Expression::analyze(e, ty, scope) with the unchanged expected type', an.where(), cond_str(p.conds))
    ctx.floor(rid, 'parenthesis arm in analyze', n, 1)
    cp = ctx.anchor(fx, 'compile::<impl ast::SingleExpression>::compile')
    n = 0
    for kind, p, ret in explore(ctx, cp):
        if kind != 'RET' or ret_kind(ret) != 'ok' or not p.conds or p.conds[0][1] != 'Expression':
            continue
        n += 1
        v = ret[2][0]
        ok = is_call(v, 'compile::<impl ast::Expression>::compile') and len(p.conds) == 1
        ctx.ob(rid, 'compile:paren', ok, 'Expression(e) compiles to e.compile(scope) itself', cp.where(), sv(v))
    ctx.floor(rid, 'parenthesis arm in compile', n, 1)


SCOPE_RESOLVERS = {'<ast::Assignment as ast::AbstractSyntaxTree>::analyze', '<ast::CallName as ast::AbstractSyntaxTree>::analyze', '<ast::Function as ast::AbstractSyntaxTree>::analyze',
                   '<ast::Match as ast::AbstractSyntaxTree>::analyze', '<ast::ModuleAssignment as ast::AbstractSyntaxTree>::analyze', 'ast::Scope::insert_alias'}


def r_alias_resolution(ctx, rid='R17.7'):
    """"Replacing an alias by its definition changes nothing": a type written in the program is resolved against the aliases in
    scope wherever it is consumed.  resolve_builtin (which knows no user alias) may only see types that cannot contain one:
    jet signatures and the type of a witness-file entry."""
    ctx.rule(rid, 'alias resolution: every analysis function that consumes a written type resolves it with Scope::resolve; resolve_builtin is applied to jet signature types and witness-file types only')
    fx = ctx.facts()
    users = {f.path.split('::{closure')[0] for f, b, c, t in fx.callers_of('types::AliasedType::resolve_builtin')}
    ok_users = {'<ast::Call as ast::AbstractSyntaxTree>::analyze', 'witness::<impl parse::ParseFromStr for types::ResolvedType>::parse_from_str'}
    ctx.ob(rid, 'resolve_builtin:users', users <= ok_users and bool(users), 'resolve_builtin is used by %s only' % sorted(ok_users), None, 'also used by %s' % sorted(users - ok_users))
    resolvers = {f.path.split('::{closure')[0] for f, b, c, t in fx.callers_of('ast::Scope::resolve')}
    ctx.ob(rid, 'scope-resolve:users', resolvers >= SCOPE_RESOLVERS, 'the %d consumers of written types (let, cast, function signature, match arm, module entry, alias definition) call Scope::resolve' % len(SCOPE_RESOLVERS), None,
           'no longer resolving through the scope: %s' % sorted(SCOPE_RESOLVERS - resolvers))
    # inside Call::analyze: only jet signature types
    fn = ctx.anchor(fx, '<ast::Call as ast::AbstractSyntaxTree>::analyze')
    n, bad = 0, []
    for k, p, r in explore(ctx, fn):
        if p is None:
            continue
        for e in p.events:
            if e[0] != 'call':
                continue
            direct = e[1].endswith('resolve_builtin')
            asfn = any(x[0] == 'fn' and x[1].endswith('resolve_builtin') for a in e[2] for x in walk(a) if isinstance(a, tuple)) and e[1].split('::')[-1] == 'map'
            if direct or asfn:
                n += 1
                src = sv(e[2][0])
                if not (('source_type(' in src or 'target_type(' in src) and '@Jet.0' in src):
                    bad.append(src[:120])
    ctx.ob(rid, 'resolve_builtin:jet-types', n >= 2 and not bad, 'in Call::analyze resolve_builtin is applied to jet::source_type / jet::target_type of the called jet only (%d uses)' % n, fn.where(), str(bad[:3]))


def check(ctx):
    from . import c04
    c04.r_grammar_words(ctx, 'R17.4')
    c04.r_reviewed_grammar(ctx, 'R17.6', mention={'identifier', 'witness_name', 'function_name', 'alias_name', 'builtin_type', 'builtin_function', 'builtin_alias', 'jet', 'fn_keyword', 'let_keyword', 'match_keyword', 'type_keyword', 'mod_keyword', 'const_keyword', 'module_name', 'single_expression', 'ty', 'call_name', 'expression', 'pattern', 'match_pattern', 'WHITESPACE', 'COMMENT', 'program', 'item', 'statement', 'block_expression'})
    r_capture(ctx)
    r_names_raw(ctx)
    r_parens(ctx)
    r_alias_resolution(ctx)
    c04.group_rule(ctx, 'R17.8', r'^<str::\w+ as parse::PestParse>::parse$', 'name wrappers are built from the matched text', 8)
    from . import c10
    c10.r_lookup_ast(ctx)
    c10.r_order_ast(ctx)   # a binder is visible in its own arm only: renaming it cannot capture a name used in the other arm   # renaming-invariance of acceptance needs innermost-first lookup at type-check time
