"""C15 Values, witness/argument maps and types survive print-parse."""
import re
from ..core import sv, walk
from ..util import *
from ..printer import *
from ..grammar import Grammar
from .. import guards
from .layout import S
from . import c16, c19, c11

EXPLANATION = ('Round-trip equality over all values is string-level behaviour and is not decided. Decided: (R15.1) module printing is deterministic: '
               'the key iteration reaches the formatter only through sorted_unstable, and the module printer writes the literals of the module '
               'grammar rules; (R15.2) duplicate names are rejected (WitnessReassigned / ModuleRedefined decision rows; JSON visitor '
               '`insert(..).is_some()` in the serde configuration); (R15.3) every value / type variant is printed with literals of the grammar '
               'rule that parses it (Left( ↔ left_expr, list![ ↔ list_expr, Either< ↔ sum_type, …), Boolean prints the words of true_expr / '
               'false_expr, integers per width as R11.6, a non-empty byte array as one 0x hex literal; n-ary separators and the singleton tuple '
               'comma; (R15.4) the value parser path parse → analyze_const → from_const_expr and the const-expression fold build each variant '
               'from the matching AST form. The hex-shortcut state flag on arbitrary nestings and JSON escaping are not decided.')
NOT_DECIDED = ['Value::parse_from_str(v.to_string()) == v over all values', 'hex-shortcut flag of the stateful value printer on arbitrary nestings', 'JSON string escaping (serde_json)']
ASSUMPTIONS = ['std Display of bool prints true/false; as_hex prints two lowercase hex digits per byte']

VALUE_RULES = {'Either.Left': ['left_expr'], 'Either.Right': ['right_expr'], 'Option.None': ['none_expr'], 'Option.Some': ['some_expr'], 'Tuple': ['tuple_expr'],
               'Array': ['array_expr', 'hex_literal'], 'List': ['list_expr']}
TYPE_RULES = {'Either': ['sum_type'], 'Option': ['option_type'], 'Boolean': ['boolean_type'], 'Tuple': ['tuple_type'], 'Array': ['array_type'], 'List': ['list_type']}


def r_value_printer(ctx):
    rid = 'R15.3'
    ctx.rule(rid, 'value and type printers: each variant writes literals of the grammar rule that parses it; n-ary separators; singleton tuple comma')
    fx = ctx.facts()
    g = Grammar(fx.grammar)
    dm, universe = c16.printer_map(ctx, '<value::Value as std::fmt::Display>::fmt')
    for key, rules in VALUE_RULES.items():
        pieces = dm.get(key, set())
        lits = set()
        for r in rules:
            lits |= c16.shallow_literals(g, r)
        bad = [pc for pc in pieces if not segmentable(pc, lits | {','})]
        ctx.ob(rid, 'value:' + key, bool(pieces) and not bad, 'Value %s prints %s ⊆ literals of %s' % (key, sorted(pieces), rules), fx.fn('<value::Value as std::fmt::Display>::fmt').where(), 'not from the rule: %s' % bad if bad else None)
    vs = universe.get('value::ValueInner', set())
    ctx.ob(rid, 'value:coverage', vs and {k.split('.')[0] for k in dm} >= vs, 'every ValueInner variant %s has a printer arm (%s)' % (sorted(vs), sorted(dm)), None)
    ctx.ob(rid, 'bool-words', g.literals('true_expr') >= {'true'} and g.literals('false_expr') >= {'false'} and c16.shallow_literals(g, 'true_expr') - {'_'} == {'true'} and c16.shallow_literals(g, 'false_expr') - {'_'} == {'false'}, 'grammar words of the Boolean literals are the std Display words true/false', 'src/minimal.pest')
    fn = ctx.anchor(fx, '<value::Value as std::fmt::Display>::fmt')
    forms = {'Tuple': ('(', ')'), 'List': ('list![', ']')}
    got = {k: set() for k in forms}
    hexpaths = 0
    for kind, p, ret in explore(ctx, fn, max_visits=1):
        labs = [l for w, l in p.conds]
        for k in forms:
            if k in labs:
                got[k].add(tuple(pc for pc in path_pieces(p) if pc))
        if 'Array' in labs and '0x' in path_pieces(p):
            hexpaths += 1
            hx = [e for e in event_calls(p, 'as_hex')]
            cs = [(S(w), l) for w, l in p.conds]
            ok = bool(hx) and any('is_empty' in w and l == '0' for w, l in cs) and any(l == 'Some' and 'collect' in w for w, l in cs)
            ctx.ob(rid, 'array:hex-shortcut', ok, 'the 0x form is used only for a non-empty array whose elements are all u8 (collect::<Option<Vec<u8>>> = Some, !is_empty)', fn.where(), cond_str(p.conds)[:300])
    ctx.floor(rid, 'hex shortcut path', hexpaths, 1)
    for k, (o, c) in forms.items():
        exp = {(), (o,), (o, c), (', ',), (', ', c), (c,)}
        ctx.ob(rid, 'value-nary:' + k, got[k] == exp, 'Value %s printer writes exactly the piece sequences %s' % (k, sorted(exp)), fn.where(), str(sorted(got[k])))
    # types
    tf = ctx.anchor(fx, 'types::TypeInner::<A>::display')
    tm, tu = c16.printer_map(ctx, tf.path)
    for key, rules in TYPE_RULES.items():
        pieces = tm.get(key, set())
        lits = set()
        for r in rules:
            lits |= c16.shallow_literals(g, r)
        bad = [pc for pc in pieces if not segmentable(pc, lits | {','})]
        ctx.ob(rid, 'type:' + key, bool(pieces) and not bad, 'type %s prints %s ⊆ literals of %s' % (key, sorted(pieces), rules), tf.where(), 'not from the rule: %s' % bad if bad else None)
    tv = tu.get('types::TypeInner', set())
    ctx.ob(rid, 'type:coverage', bool(tv) and set(tm) | {'UInt'} >= tv, 'every TypeInner variant %s has a printer arm (%s)' % (sorted(tv), sorted(tm)), tf.where())
    # singleton tuple type prints `(T,)`
    single = False
    for kind, p, ret in explore(ctx, tf, max_visits=1):
        labs = [l for w, l in p.conds]
        if 'Tuple' in labs and [pc for pc in path_pieces(p) if pc] == [',', ')']:
            single = True
    ctx.ob(rid, 'type:singleton-comma', single, 'a 1-tuple type prints `(T,)`', tf.where())
    c16.r_tokens(ctx, 'R15.3t', pats=[r'^<value::(Value|UIntValue) as std::fmt::Display>::fmt$', r'^types::TypeInner::<A>::display$', r'^<types::(AliasedType|ResolvedType|UIntType|BuiltinAlias) as std::fmt::Display>::fmt$',
                                      r'^<witness::(WitnessValues|Arguments) as std::fmt::Display>::fmt$'], floor=6)


def r_maps(ctx):
    rid = 'R15.1'
    ctx.rule(rid, 'module printer: keys().sorted_unstable(); literals of the module / module_assign rules; module name = the map\'s own name')
    fx = ctx.facts()
    g = Grammar(fx.grammar)
    for name, mod in (('WitnessValues', 'witness'), ('Arguments', 'param')):
        fn = ctx.anchor(fx, '<witness::%s as std::fmt::Display>::fmt' % name)
        pieces = set()
        consts = set()
        sorted_ok = False
        for kind, p, ret in explore(ctx, fn, max_visits=1):
            pieces |= {pc for pc in path_pieces(p) if pc}
            for e in event_calls(p, 'into_iter'):
                sorted_ok = sorted_ok or (guards.sorted_key_order(e[2][0]))
            for e in event_calls(p, 'new_display'):
                for x in walk(e[2][0]):
                    if x[0] == 'const' and x[1].startswith('"'):
                        consts.add(x[1])
        lits = c16.shallow_literals(g, 'module') | c16.shallow_literals(g, 'module_assign')
        bad = [pc for pc in pieces if not segmentable(pc, lits)]
        ctx.ob(rid, 'sorted:' + name, sorted_ok, '%s is printed in sorted key order' % name, fn.where())
        ctx.ob(rid, 'tokens:' + name, bool(pieces) and not bad, 'module printer pieces %s ⊆ literals of module/module_assign' % sorted(pieces), fn.where(), str(bad) if bad else None)
    ctx.ob(rid, 'module-names', g.literals('module_name') == {'witness', 'param'}, 'grammar module names are witness and param', 'src/minimal.pest (module_name)')
    wv = ctx.anchor(fx, 'ast::<impl witness::WitnessValues>::analyze')
    ar = ctx.anchor(fx, 'ast::<impl witness::Arguments>::analyze')
    r1 = [S(r) for k, p, r in explore(ctx, wv) if k == 'RET']
    r2 = [S(r) for k, p, r in explore(ctx, ar) if k == 'RET']
    ctx.ob(rid, 'analyze:names', r1 == ['map(analyze_named_module(witness(), from), from)'] and r2 == ['map(analyze_named_module(param(), from), from)'], 'WitnessValues are read from `mod witness`, Arguments from `mod param`', wv.where(), '%s %s' % (r1, r2))
    rid = 'R15.2'
    ctx.rule(rid, 'duplicate names rejected: module analysis (WitnessReassigned, ModuleRedefined); JSON visitor in the serde configuration')
    table = guards.load_table()
    guards.compare(ctx, rid, ['ast::analyze_named_module', '<ast::Module as ast::AbstractSyntaxTree>::analyze', '<ast::ModuleAssignment as ast::AbstractSyntaxTree>::analyze', '<ast::ModuleItem as ast::AbstractSyntaxTree>::analyze'], table, 'module analysis')
    fn = ctx.anchor(fx, 'ast::analyze_named_module')
    dup = False
    for kind, p, ret in explore(ctx, fn, max_visits=2):
        if kind == 'RET' and 'WitnessReassigned' in err_variants(ret):
            dup = any((is_call(w, 'contains_key') and l != '0') or (is_call(w, 'entry') and l == 'Occupied') for w, l in p.conds)
    ctx.ob(rid, 'module:duplicate', dup, 'map.contains_key(name) ⇒ WitnessReassigned before insertion', fn.where())
    if True:
        fs = ctx.facts('serde')
        vis = [f for f in fs.find(r'Visitor.*::visit_map$')]
        ctx.floor(rid, 'JSON map visitors (serde configuration)', len(vis), 1)
        for f in vis:
            ok = False
            for kind, p, ret in explore(ctx, f, max_visits=2, facts=fs):
                for w, l in p.conds:
                    if is_call(w, 'is_some') and calls_in(w, 'insert') and l != '0' and kind == 'RET' and ret_kind(ret) in ('err', 'other', 'residual'):
                        ok = True
                    if is_call(w, 'contains_key') and l != '0' and kind == 'RET':
                        ok = True
                    if is_call(w, 'entry') and l == 'Occupied' and kind == 'RET' and ret_kind(ret) in ('err', 'other', 'residual'):
                        ok = True
                # fixed-field objects ({"value": .., "type": ..}): a field seen before (`slot.is_some()`) ⇒ duplicate_field error
                for e in event_calls(p, 'duplicate_field'):
                    if any(is_call(w, 'is_some') and l != '0' for w, l in p.conds[:e[5]]):
                        ok = True
            ctx.ob(rid, 'json:duplicate:' + f.path, ok, 'JSON visitor rejects a name that is already in the map', f.where())


def r_value_parser(ctx):
    rid = 'R15.4'
    ctx.rule(rid, 'value parser path: Value::parse_from_str = parse expression → analyze_const at the type → from_const_expr; the const fold builds each value variant from the matching AST form')
    fx = ctx.facts()
    fn = ctx.anchor(fx, 'value::Value::parse_from_str')
    ok = False
    for kind, p, ret in explore(ctx, fn):
        if kind == 'RET':
            s = S(ret)
            ok = 'from_const_expr(' in s and 'analyze_const(' in s and 'parse_from_str(s)' in s and 'ExpressionUnexpectedType' in s
            c = calls_in(ret, 'analyze_const')
            ok = ok and bool(c) and c[0][2][1] == ('param', 1, fn.names.get(2, 'ty'))
    ctx.ob(rid, 'path', ok, 'parse_from_str(s, ty) = from_const_expr(analyze_const(parse(s), ty)) or ExpressionUnexpectedType', fn.where())
    table = guards.load_table()
    guards.compare(ctx, rid, ['value::Value::from_const_expr', 'value::Value::parse_from_str'], table, 'const-expression evaluation')
    fc = ctx.anchor(fx, 'value::Value::from_const_expr')
    got = {}
    for kind, p, ret in explore(ctx, fc, max_visits=2):
        labs = [l for w, l in p.conds]
        pushes = [e for e in event_calls(p, 'push') if 'Vec' in e[1]]
        for e in pushes:
            v = e[2][1]
            if is_call(v) and 'ValueConstructible' in v[1]:
                ctor = v[1].split('::')[-1]
                before = [(S(w), l) for w, l in p.conds[:e[5]]]
                form = []
                for w, l in reversed(before):
                    if 'inner(' in w and l in ('Tuple', 'Array', 'List', 'Either', 'Option', 'Left', 'Right', 'None', 'Some'):
                        form.insert(0, l)
                        if l in ('Tuple', 'Array', 'List', 'Either', 'Option'):
                            break
                    elif form:
                        break
                got.setdefault(ctor, set()).add(tuple(form[-2:]))
    exp = {'tuple': {('Tuple',)}, 'array': {('Array',)}, 'list': {('List',)}, 'left': {('Either', 'Left')}, 'right': {('Either', 'Right')}, 'none': {('Option', 'None')}, 'some': {('Option', 'Some')}}
    ctx.ob(rid, 'const-fold:ctor-per-form', all(got.get(k) == v for k, v in exp.items()), 'from_const_expr builds Value::tuple/array/list/left/right/none/some from the AST form of the same name', fc.where(), str({k: sorted(v) for k, v in got.items()}))


def check(ctx):
    from . import c04
    c04.group_rule(ctx, 'R15.5', r'^(<value::Value as std::fmt::Display>::fmt.*|<value::UIntValue as std::fmt::Display>::fmt|<types::(ResolvedType|AliasedType|UIntType|BuiltinAlias) as std::fmt::Display>::fmt|<num::(U256|NonZeroPow2Usize|Pow2Usize) as std::fmt::Display>::fmt|<str::(WitnessName|ModuleName) as std::fmt::Display>::fmt|types::TypeInner::<A>::display|<witness::(WitnessValues|Arguments) as (std::fmt::Display>::fmt|parse::ParseFromStr>::parse_from_str.*)|value::Value::parse_from_str|witness::<impl parse::ParseFromStr for types::ResolvedType>::parse_from_str)$', 'value/type/map printers and parsers: complete state machines (loop-carried flags havocked) with every call', 8)
    r_maps(ctx)
    r_value_printer(ctx)
    r_value_parser(ctx)
    c11.r_print(ctx)
    c16.r_name_tables(ctx, 'R15.6')
    c16.r_number_tokens(ctx, 'R15.7')
    c04.group_rule(ctx, 'R15.9', r"^(<(&value::Value|&types::ResolvedType|&types::AliasedType) as miniscript::iter::TreeLike>::as_node|ast::analyze_named_module::\{closure#\d+\})$", 'children of value and type nodes in the order the printers visit them; module item selection', 3)
    c04.group_rule(ctx, 'R15.12', r'^(<?serde::.*|witness::(Arguments|WitnessValues)::as_inner)$', 'JSON visitors and serializers of witness / argument maps and values (serde feature): every path', 12, config='serde')
    c04.group_rule(ctx, 'R15.11', r'^(num::(NonZero)?Pow2Usize::new|<num::\w+ as (parse::PestParse>::parse|std::str::FromStr>::from_str)(::\{closure#\d+\})*|<types::(UIntType|BuiltinAlias|AliasedType) as parse::PestParse>::parse)$', 'parsers of the printed numbers, bounds and type names', 5)
    c04.group_rule(ctx, 'R15.10', c11.LIT.pattern, 'literal converters: what the printed integers and byte strings are parsed back with', 8)
    c04.r_reviewed_grammar(ctx, 'R15.8', roots={'program', 'ty', 'expression'})
