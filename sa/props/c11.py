"""C11 Integer literals denote their mathematical value."""
import re
from ..util import *
from .. import guards
from .layout import S
from . import c06, c07

EXPLANATION = ('Decides the structural part of literal denotation: (R11.1) decimal: each width Uk parses with str::parse::<uk> (u1/u2/u4 via u8 and '
               'range-checked constructors with ranges 0..=1, 0..=3, 0..=15, read from the decision tables); (R11.2) binary: digit count must be a '
               'power of two naming a type equal to the expected type (decision table of parse_binary); (R11.3) hex: non-empty, even, exactly '
               '2·byte_width digits (overflow-free), for uN with N ≥ 8 and [u8; n] (decision table of parse_hexadecimal; the defect D2 found here is '
               'repaired); (R11.4) prefixes and `_` stripping agree with the grammar and the digit classes are those the converters accept; '
               '(R11.6) printer/parser agreement of notations per width (decimal for ≤ 64 bits, 0x + 2·byte_width hex digits for u128/u256). '
               'The numeric correctness of the hand-written 256-bit decimal conversion and the bit order of the binary padding loop are numeric, '
               'run-time facts and are not decided.')
NOT_DECIDED = ['256-bit decimal conversion arithmetic (num.rs)', 'bit order of the padding loop in parse_binary', 'std str::parse::<uN> correctness']
ASSUMPTIONS = ['std integer parsing denotes the mathematical value and rejects overflow and the empty string']

LIT = re.compile(r'^(value::UIntValue::(parse_decimal|parse_binary|u1|u2|u4)|value::Value::parse_hexadecimal|types::UIntType::(from_bit_width|bit_width|byte_width)|num::Pow2Usize::new|<num::U256 as std::str::FromStr>::from_str|<error::Error as std::convert::From<(std::)?num::ParseIntError>>::from)$')


def r_print(ctx):
    rid = 'R11.6'
    ctx.rule(rid, 'printer notation per width: u1..u64 decimal via the std Display of the carrier integer, u128/u256 as 0x + big-endian bytes in hex (2·byte_width digits, the form parse_hexadecimal accepts)')
    fx = ctx.facts()
    fn = ctx.anchor(fx, '<value::UIntValue as std::fmt::Display>::fmt')
    got = {}
    for kind, p, ret in explore(ctx, fn):
        labs = [l for w, l in p.conds if l in c07.WIDTHS]
        if kind != 'RET' or len(labs) != 1:
            continue
        ev = [e for e in event_calls(p)]
        disp = [m.group(1) for e in ev for m in [re.search(r'impl std::fmt::Display for (u\d+)>::fmt$', e[1])] if m]
        hexs = [S(e[2][0]) for e in ev if e[1].endswith('::as_hex')]
        got[labs[0]] = (disp[0] if disp else None, hexs[0] if hexs else None)
    exp_dec = {'U1': 'u8', 'U2': 'u8', 'U4': 'u8', 'U8': 'u8', 'U16': 'u16', 'U32': 'u32', 'U64': 'u64'}
    ok = all(got.get(v, (None,))[0] == t for v, t in exp_dec.items())
    ok = ok and got.get('U128', (0, None))[1] is not None and 'to_be_bytes' in got['U128'][1] and got.get('U256', (0, None))[1] is not None
    ctx.ob(rid, 'display', ok, 'UIntValue Display: decimal for u1..u64, hex of the big-endian bytes for u128/u256', fn.where(), str(got))
    # the "0x" prefix literal of the hex form
    consts = set()
    for b in fn.blocks.values():
        for st in b['stmts']:
            for x in walk_json(st):
                if isinstance(x, str) and '0x' in x:
                    consts.add(x)
    ctx.ob(rid, 'display:prefix', any('"0x"' in c for c in consts) or any('0x' in c for c in consts), 'the hex form is printed with the prefix 0x', fn.where(), str(sorted(consts))[:200])


def walk_json(x):
    if isinstance(x, dict):
        for v in x.values():
            for y in walk_json(v):
                yield y
    elif isinstance(x, list):
        for v in x:
            for y in walk_json(v):
                yield y
    else:
        yield x


def r_binary_bits(ctx):
    rid = 'R11.2'
    ctx.rule(rid, 'binary literal bit order: bits are read front to back, padded on the left with zeros to a whole byte (sub-byte widths), each byte built as byte = (byte << 1) | (bit == \'1\'), bytes pushed in order')
    fx = ctx.facts()
    fn = ctx.anchor(fx, 'value::UIntValue::parse_binary')
    LEN = 'get(ok_or(new(len(as_inner(binary))), BitStringPow2{len(as_inner(binary))}))'
    src = "chain(take(repeat('0'), saturating_sub(8_usize, %s)), chars(as_inner(binary)))" % LEN
    facts = {'chain': False, 'bitor1': False, 'bitor2': False, 'cap': False}
    for kind, p, ret in explore(ctx, fn, max_visits=2, max_paths=3000):
        if p is None:
            continue
        for e in event_calls(p, 'chain'):
            facts['chain'] = facts['chain'] or S(('call', e[1], e[2])) == src
        for e in event_calls(p, 'with_capacity'):
            facts['cap'] = facts['cap'] or S(e[2][0]) == 'div_ceil(%s, 8_usize)' % LEN
        for key, v in p.env.items():
            if isinstance(v, tuple) and v[0] == 'bin' and v[1] == 'BitOr':
                s1 = S(v)
                if s1 == "BitOr(Shl(0_u8, 1_i32), from(Eq(unwrap(next(%s)), '1')))" % src:
                    facts['bitor1'] = True
                if s1.startswith("BitOr(Shl(BitOr(Shl(0_u8, 1_i32), from(Eq(unwrap(next(") and s1.endswith("'1')))") and s1.count('Shl(') == 2:
                    facts['bitor2'] = True
    ctx.ob(rid, 'bits:source', facts['chain'], 'bit source = zeros(8 − bit_len, saturating) followed by the characters of the literal in order', fn.where())
    ctx.ob(rid, 'bits:byte-count', facts['cap'], 'ceil(bit_len / 8) bytes are produced', fn.where())
    ctx.ob(rid, 'bits:step', facts['bitor1'] and facts['bitor2'], 'each bit is shifted in from the right: byte = (byte << 1) | u8::from(bit == \'1\'), starting from 0', fn.where(), str(facts))


PRIMS = {'u8', 'u16', 'u32', 'u64', 'u128', 'usize'}


def r_empty_decimal(ctx, rid='R11.7'):
    """"Rejected when it contains no digit at all", decimal notation: the grammar token admits `_` only texts and the
    separators are removed before conversion, so every string→integer converter called by parse_decimal has to reject
    the empty string itself.  core's FromStr for the primitive integers does (IntErrorKind::Empty, a fact about core);
    a converter defined in this crate has to show it in its own decision table: an error row guarded by an emptiness
    test of its *untrimmed* argument, and no Ok row without the negation of that test."""
    ctx.rule(rid, 'decimal literals without digits: every string→integer converter called by parse_decimal is core\'s FromStr of a primitive integer or a local converter with an error row guarded by is_empty(argument) on every path to Ok')
    fx = ctx.facts()
    fn = ctx.anchor(fx, 'value::UIntValue::parse_decimal')
    n = 0
    for bid, c, t in fn.calls():
        inst = t['f'].get('inst') or ''
        m = re.match(r'^core::str::<impl str>::parse::<(.*)>$', inst)
        if not m:
            continue
        n += 1
        ty = m.group(1)
        if ty in PRIMS:
            ctx.ob(rid, 'conv:' + ty, True, 'core::str::parse::<%s>: core rejects the empty string' % ty, fn.where(t.get('line')))
            continue
        path = '<%s as std::str::FromStr>::from_str' % ty
        if path not in fx.F:
            ctx.ob(rid, 'conv:' + ty, False, 'converter body available', fn.where(t.get('line')), 'no MIR for ' + path)
            continue
        conv = fx.F[path]
        rows = guards.decision_table(ctx, conv, plain=True)
        arg = conv.names.get(1, 's')
        test_t, test_f = 'Eq(0_usize, len(%s))=T' % arg, 'Eq(0_usize, len(%s))=F' % arg
        err = [r for r in rows if r['out'].startswith('err') and test_t in r['conds']]
        leaky = [r for r in rows if (r['out'].startswith('ok') or r['out'] in ('val', 'loop')) and test_f not in r['conds']]
        ctx.ob(rid, 'conv:' + ty, bool(err) and not leaky, '%s rejects the empty string before anything else (row %s → Err; every other row under %s)' % (path, test_t, test_f), conv.where(),
               None if err and not leaky else 'no error row guarded by %s' % test_t if not err else 'row reaching %s without the emptiness test: %s' % (leaky[0]['out'], leaky[0]['conds'][:2]))
    ctx.floor(rid, 'string→integer conversions in parse_decimal', n, 9)
    # the premise: the decimal token can consist of separators only
    from ..grammar import Grammar
    g = Grammar(fx.grammar)
    toks = {name: shape for name, shape, ok, why in g.digit_tokens()}
    ctx.ob(rid, 'premise:dec_literal', 'dec_literal' in toks, 'grammar token dec_literal is a digit/underscore class token (%s): digit-free texts reach the converter' % toks.get('dec_literal'), 'src/minimal.pest (dec_literal)')


def check(ctx):
    r_empty_decimal(ctx)
    from . import c04
    c04.r_reviewed_grammar(ctx, 'R11.8', roots={'dec_literal', 'bin_literal', 'hex_literal', 'unsigned_type'})
    r_binary_bits(ctx)
    ctx.rule('R11.1', 'decision tables of the literal converters (decimal/binary/hex, sub-byte ranges, power-of-two and width tables) equal the reviewed table')
    table = guards.load_table()
    fx = ctx.facts()
    paths = sorted(p for p in set(table) | set(guards.guard_functions(fx)) if LIT.match(p))
    n = guards.compare(ctx, 'R11.1', paths, table, 'literal converters')
    ctx.floor('R11.1', 'literal converter functions', len(paths), 10)
    c07.r_uint_tables(ctx, only=c07.UINT_KEYS - {'as_integer:shifts'})   # the destructor table belongs to C07/C14
    c06.r_literal_classes(ctx)
    r_print(ctx)
    # ranges of the sub-byte constructors, read from the decision table rows of the current tree
    for name, hi in (('u1', 1), ('u2', 3), ('u4', 15)):
        fn = ctx.anchor(fx, 'value::UIntValue::' + name)
        rows = guards.decision_table(ctx, fn, plain=True)
        okr = [r for r in rows if r['out'].startswith('ok')]
        err = [r for r in rows if r['out'].startswith('err')]
        txt = ' '.join(c for r in rows for c in r['conds'])
        ok = bool(okr) and len(err) >= 1 and all('IntegerOutOfBounds' in e['out'] for e in err)
        if name == 'u1':
            ok = ok and {c for r in okr for c in r['conds']} in ({'value=0', 'value=1'}, {'value=F', 'value=1'}) and len(okr) == 2
        else:
            ok = ok and any(('Lt(%d_u8, value)=F' % hi) in r['conds'] for r in okr) and any(('Lt(%d_u8, value)=T' % hi) in r['conds'] for r in err)
        ctx.ob('R11.1', 'range:' + name, ok, '%s accepts exactly 0..=%d' % (name, hi), fn.where(), txt[:200])
