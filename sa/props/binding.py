"""Rules about environments, selectors and variable lookup shared by C01 and C10."""
import re
from ..core import sv, walk, Explorer
from ..util import *
from ..simpl import *
from .layout import S, strip


def r_selectors(ctx, rid):
    ctx.rule(rid, 'selector builder: o() pushes false, i() pushes true; h() wraps iden from the last pushed bit outwards (false ↦ take, true ↦ drop): o().i().h() = take(drop(iden))')
    fx = ctx.facts()
    for name, bit in (('o', 'false'), ('i', 'true')):
        fn = ctx.anchor(fx, 'named::SelectorBuilder::<P>::' + name)
        ok = False
        for k, p, r in explore(ctx, fn):
            if k != 'RET':
                continue
            pushes = event_calls(p, 'push')
            ok = len(pushes) == 1 and S(pushes[0][2][0]) == 'self.selection' and S(pushes[0][2][1]) == bit and S(r) == 'self'
        ctx.ob(rid, 'selector:' + name, ok, 'SelectorBuilder::%s pushes %s and returns the builder' % (name, bit), fn.where())
        ce = ctx.anchor(fx, 'named::CoreExt::' + name)
        rets = [S(r) for k, p, r in explore(ctx, ce) if k == 'RET']
        ctx.ob(rid, 'coreext:' + name, rets == ['%s(default())' % name], 'CoreExt::%s() starts an empty selector and applies %s' % (name, name), ce.where(), str(rets))
    pp = ctx.anchor(fx, 'named::SelectorBuilder::<P>::pop')
    ok = False
    for k, p, r in explore(ctx, pp):
        if k == 'RET':
            pops = event_calls(p, 'pop')
            ok = len(pops) == 1 and S(pops[0][2][0]) == 'self.selection' and S(r) == 'self'
    ctx.ob(rid, 'selector:pop', ok, 'SelectorBuilder::pop removes the last pushed bit', pp.where())
    h = ctx.anchor(fx, 'named::SelectorBuilder::<P>::h')
    got = {}
    src = set()
    for k, p, r in explore(ctx, h, max_visits=2):
        if k != 'RET':
            continue
        bits = tuple(l for w, l in p.conds if S(w).endswith('@Some.0'))
        for w, l in p.conds:
            m = re.match(r'next\((.*)\)$', S(w))
            if m:
                src.add(m.group(1))
        got[bits] = S(r)
    exp = {(): 'iden(inference_context)', ('0',): 'take(iden(inference_context))', ('!0',): 'drop_(iden(inference_context))'}
    raw = [strip(r) for k, p, r in explore(ctx, h, max_visits=2) if k == 'RET']
    if len(raw) == 1 and is_call(raw[0]) and raw[0][1].split('::')[-1] == 'fold' and len(raw[0][2]) == 3 and raw[0][2][2][0] == 'agg' and raw[0][2][2][1].startswith('closure:'):
        # the same loop written as Iterator::fold(iden, |expr, bit| if bit { expr.drop_() } else { expr.take() })
        it, init, clo = raw[0][2]
        cf = fx.F.get(clo[1][8:])
        steps = {}
        if cf is not None:
            acc = cf.names.get(2, 'expr')
            for k2, p2, r2 in explore(ctx, cf):
                if k2 == 'RET' and len(p2.conds) == 1 and p2.conds[0][0] == ('param', 2, cf.names.get(3, 'bit')):
                    steps[p2.conds[0][1]] = S(r2).replace('(%s)' % acc, '(ACC)')
        if S(init) == 'iden(inference_context)' and steps == {'0': 'take(ACC)', '!0': 'drop_(ACC)'}:
            got = dict(exp)
        src = {'into_iter(%s)' % S(it)} if S(it) == 'rev(into_iter(self.selection))' else {S(it)}
    ctx.ob(rid, 'selector:h', got == exp, 'h(): false ↦ take, true ↦ drop_, wrapped around the accumulated expression', h.where(), str(got))
    ctx.ob(rid, 'selector:h-order', src == {'into_iter(rev(into_iter(self.selection)))'}, 'h() consumes the bits in reverse push order (first pushed bit outermost)', h.where(), str(src))


def r_lookup(ctx, rid):
    ctx.rule(rid, 'variable lookup: Scope::get = translate(BasePattern::from(input pattern), target); input pattern = fold newest-first product over scopes outer→inner, insertion order; only Identifier targets are requested; translate(Identifier) = BasePattern::get(id).h(); BasePattern::get = first pre-order match with child 0 ↦ o, child 1 ↦ i')
    fx = ctx.facts()
    g = ctx.anchor(fx, 'compile::Scope::get')
    rets = [S(r) for k, p, r in explore(ctx, g) if k == 'RET']
    ctx.ob(rid, 'scope-get', rets == ['translate(from(get_input_pattern(self)), self.ctx, target)'], 'Scope::get translates the current input pattern to the target', g.where(), str(rets))
    gi = ctx.anchor(fx, 'compile::Scope::get_input_pattern')
    raw = [strip(r) for k, p, r in explore(ctx, gi) if k == 'RET']
    # accepted idioms for "all patterns of all scopes in stack order": variables.iter().flat_map(|s| s.iter()) or .flatten()
    ok_fold, flat_clo, fold_clo, IT = False, None, None, None
    if len(raw) == 1 and is_call(raw[0]) and raw[0][1].endswith('::fold') and len(raw[0][2]) == 3:
        src, init, clo = raw[0][2]
        if is_call(src) and src[1].endswith('::cloned'):
            IT = src[2][0]
            inner = S(IT)
            if is_call(IT) and IT[1].endswith('::flat_map') and S(IT[2][0]) == 'iter(self.variables)' and IT[2][1][0] == 'agg' and IT[2][1][1].startswith('closure:'):
                flat_clo = IT[2][1][1][len('closure:'):]
            ok_it = inner == 'flatten(iter(self.variables))' or flat_clo is not None
            ok_fold = ok_it and S(init) == 'expect(next(%s), "Empty stack")' % inner and clo[0] == 'agg' and clo[1].startswith('closure:')
            if ok_fold:
                fold_clo = clo[1][len('closure:'):]
    ctx.ob(rid, 'input-pattern:fold', ok_fold, 'input pattern = it.fold(first, closure) over all patterns of all scopes in stack order (flat_map(|s| s.iter()) or flatten())', gi.where(), str([S(r) for r in raw]))
    if flat_clo is not None:
        c0 = ctx.anchor(fx, flat_clo)
        rets = [S(r) for k, p, r in explore(ctx, c0) if k == 'RET']
        ctx.ob(rid, 'input-pattern:scope-order', rets == ['iter(%s)' % c0.names.get(2, 'scope')], 'each scope contributes its patterns in insertion order', c0.where(), str(rets))
    else:
        ctx.ob(rid, 'input-pattern:scope-order', ok_fold, 'each scope contributes its patterns in insertion order (Iterator::flatten over &Vec)', gi.where())
    ok = False
    c1 = ctx.anchor(fx, fold_clo or 'compile::Scope::get_input_pattern::{closure#1}')
    for k, p, r in explore(ctx, c1):
        if k == 'RET':
            r = strip(r)
            ok = is_call(r, 'pattern::Pattern::product') and r[2][0][0] == 'param' and r[2][0][1] == 2 and r[2][1][0] == 'param' and r[2][1][1] == 1
    ctx.ob(rid, 'input-pattern:newest-left', ok, 'fold step = Pattern::product(next, acc): the newer pattern goes to the left of everything older', c1.where())
    pr = ctx.anchor(fx, 'pattern::Pattern::product')
    rets = [S(r) for k, p, r in explore(ctx, pr) if k == 'RET']
    ctx.ob(rid, 'pattern-product', rets == ['tuple(array{l, r})'], 'Pattern::product(l, r) = 2-tuple (l, r)', pr.where(), str(rets))
    # who calls Scope::get and with which target
    sites = fx.callers_of('compile::Scope::get')
    for f, bid, c, t in sites:
        ctx.ob(rid, 'get-caller:' + f.path, f.path == 'compile::<impl ast::SingleExpression>::compile', 'Scope::get is used only by the Variable arm', f.where(t['line']))
    se = ctx.anchor(fx, 'compile::<impl ast::SingleExpression>::compile')
    n = 0
    for k, p, r in explore(ctx, se):
        for e in event_calls(p, 'compile::Scope::get'):
            n += 1
            tgt = e[2][1]
            ctx.ob(rid, 'get-target', tgt[0] == 'agg' and tgt[1] == 'adt:pattern::BasePattern::Identifier' and S(tgt[2][0]) == 'inner(self)@Variable.0', 'the requested target is Identifier(the variable being compiled)', se.where(e[3]), S(tgt))
    ctx.floor(rid, 'Scope::get call', n, 1)
    for f, bid, c, t in fx.callers_of('pattern::BasePattern::translate'):
        ctx.ob(rid, 'translate-caller:' + f.path, f.path == 'compile::Scope::get', 'BasePattern::translate is used only through Scope::get', f.where(t['line']))
    # translate: Identifier arm
    tr = ctx.anchor(fx, 'pattern::BasePattern::translate')
    found = False
    for k, p, r in explore(ctx, tr, max_visits=2, follow_break=True):
        labs = [l for w, l in p.conds]
        if 'Translate' in labs and 'Identifier' in labs[labs.index('Translate'):labs.index('Translate') + 3]:
            gets = event_calls(p, 'pattern::BasePattern::get')
            maps = [e for e in event_calls(p, 'map') if 'Option' in e[1]]
            if gets and maps and not found:
                found = True
                cl = maps[0][2][1]
                okc = False
                if cl[0] == 'agg' and cl[1].startswith('closure:'):
                    cf = fx.F.get(cl[1][8:])
                    if cf:
                        rr = [strip(x[2]) for x in Explorer(cf, facts=fx).run() if x[0] == 'RET']
                        okc = len(rr) == 1 and is_call(rr[0], 'named::SelectorBuilder::h') and rr[0][2][0][0] == 'param' and rr[0][2][0][1] == 1
                g0 = gets[0]
                ok = okc and S(g0[2][0]).endswith('@Translate.0') and S(g0[2][1]).endswith('@Translate.1@Identifier.0') and contains(maps[0][2][0], ('call',) + g0[1:3]) if False else okc and S(g0[2][0]).endswith('@Translate.0') and S(g0[2][1]).endswith('@Identifier.0')
                ctx.ob(rid, 'translate:identifier', ok, 'translate(from, Identifier(id)) = from.get(id).map(|s| s.h(ctx))', tr.where(g0[3]), 'get(%s, %s)' % (S(g0[2][0])[-60:], S(g0[2][1])[-60:]))
    ctx.ob(rid, 'translate:identifier-found', found, 'Identifier arm of translate located', tr.where())
    # BasePattern::get
    bg = ctx.anchor(fx, 'pattern::BasePattern::get')
    classes = {}
    for k, p, r in explore(ctx, bg, max_visits=1):
        conds = [(S(w), l) for w, l in p.conds]
        if not conds:
            continue
        it = conds[0][0]
        if conds[0][1] == 'None':
            classes['exhausted'] = (k == 'RET' and S(r) == 'None{}' and it == 'next(into_iter(verbose_pre_order_iter(self)))')
            continue
        item = it + '@Some.0'
        cs = [(w.replace(item, 'ITEM'), l) for w, l in conds[1:]]
        ev = [(e[1].split('::')[-1], S(e[2][0]) if e[2] else '') for e in event_calls(p) if e[1].startswith('named::SelectorBuilder')]
        ev = [x[0] for x in ev if x[0] in ('o', 'i', 'pop')]
        key = None
        if cs and cs[0] == ('ITEM.node', 'Ignore'):
            key, want = 'ignore', (k == 'LOOP' and ev == ['pop'])
        elif cs and cs[0] == ('ITEM.node', 'Identifier') and len(cs) == 2 and cs[1][0] == 'eq(ITEM.node@Identifier.0, identifier)':
            if cs[1][1] == '0':
                key, want = 'other-identifier', (k == 'LOOP' and ev == ['pop'])
            else:
                key, want = 'found', (k == 'RET' and S(r) == 'Some{default()}' and ev == [])
        elif cs and cs[0] == ('ITEM.node', 'Product') and len(cs) >= 2 and cs[1][0] == 'ITEM.n_children_yielded':
            if cs[1][1] == '0':
                key, want = 'product:first-child', (k == 'LOOP' and ev == ['o'])
            elif cs[1][1] == '1':
                key, want = 'product:second-child', (k == 'LOOP' and ev == ['i'])
            elif k == 'DIVERGE':
                continue
            else:
                key, want = 'product:done', (k == 'LOOP' and ev == ['pop'])
        if key is None:
            classes['unexpected:' + cond_str(p.conds)[:100]] = False
        else:
            classes[key] = classes.get(key, True) and want
    want_keys = {'exhausted', 'ignore', 'other-identifier', 'found', 'product:first-child', 'product:second-child', 'product:done'}
    for kk in sorted(set(classes) | want_keys):
        ctx.ob(rid, 'base-get:' + kk, classes.get(kk, False), {'exhausted': 'no match ⇒ None', 'ignore': 'leaf without the name ⇒ pop', 'other-identifier': 'other name ⇒ pop', 'found': 'first pre-order occurrence of the name ⇒ return the selector built so far',
                                                                'product:first-child': 'entering child 0 ⇒ o', 'product:second-child': 'entering child 1 ⇒ i', 'product:done': 'leaving a product ⇒ pop'}.get(kk, 'unexpected path'), bg.where())
    # the returned selector is the accumulated one (mutable `selector`), not a fresh default: check via MIR that Some(..) wraps the local that o/i/pop results are assigned to
    fresh = [b for b in bg.blocks.values() if not b['cleanup'] and b['term']['k'] == 'call' and 'Default' in (b['term']['f'].get('def') or '')]
    ctx.ob(rid, 'base-get:single-default', len(fresh) == 1, 'exactly one fresh selector is created (before the loop)', bg.where())


def r_base_pattern(ctx, rid):
    ctx.rule(rid, 'BasePattern::from(&Pattern): tuple and array patterns become the balanced product tree of their components (same BTreeSlice as tuple/array values), empty ⇒ Ignore')
    fx = ctx.facts()
    fn = ctx.anchor(fx, '<pattern::BasePattern as std::convert::From<&pattern::Pattern>>::from')
    found = False
    for k, p, r in explore(ctx, fn, max_visits=2):
        labs = [l for w, l in p.conds]
        if any(l in ('Tuple|Array', 'Tuple', 'Array') for l in labs):
            folds = event_calls(p, 'array::BTreeSlice::fold')
            uo = event_calls(p, 'unwrap_or')
            if folds and uo and not found:
                found = True
                f0 = folds[0]
                ok = f0[2][1][0] == 'fn' and f0[2][1][1] == 'pattern::BasePattern::product' and is_call(f0[2][0], 'array::BTreeSlice::from_slice') and S(uo[0][2][1]) == 'Ignore{}'
                ctx.ob(rid, 'from-pattern:tree', ok, 'components folded with BTreeSlice::fold(BasePattern::product).unwrap_or(Ignore)', fn.where(f0[3]), S(f0)[:200])
    ctx.ob(rid, 'from-pattern:found', found, 'tuple/array arm of BasePattern::from located', fn.where())
    bp = ctx.anchor(fx, 'pattern::BasePattern::product')
    rets = [S(r) for k, p, r in explore(ctx, bp) if k == 'RET']
    ctx.ob(rid, 'base-product', rets == ['Product{left, right}'] or rets == ['Product{new(left), new(right)}'], 'BasePattern::product(l, r) = Product(l, r)', bp.where(), str(rets))


def r_tags(ctx, rid, arms_only=False):
    ctx.rule(rid, 'sum-tag convention: bit(false) = injl unit, bit(true) = injr unit; match arms are normalised so that Left/None/false is the left arm')
    fx = ctx.facts()
    fn = ctx.anchor(fx, 'named::CoreExt::bit')
    got = {}
    rc = Reconstructor(fx)
    for k, p, r in explore(ctx, fn):
        if k == 'RET':
            try:
                got[p.conds[0][1] if p.conds else '?'] = tstr(rc.term(r))
            except Opaque as e:
                got['?'] = str(e)
    if not arms_only:
        ctx.ob(rid, 'bit', got == {'0': 'injl(unit)', '!0': 'injr(unit)'}, 'bit(false) = injl unit, bit(true) = injr unit', fn.where(), str(got))
    mp = ctx.anchor(fx, '<parse::Match as parse::PestParse>::parse')
    combos = {}
    for k, p, r in explore(ctx, mp, keep_site=True):
        if k != 'RET' or ret_kind(r) != 'ok':
            continue
        lit = [x for x in walk(r) if x[0] == 'agg' and x[1] == 'adt:parse::Match::Match']
        if not lit:
            continue
        pats = [(w, l) for w, l in p.conds if S(w).endswith('.pattern')]
        if len(pats) != 2:
            combos['?' + cond_str(p.conds)[:60]] = None
            continue
        def site(v):
            c = [x for x in walk(v) if is_call(x, 'parse') and 'MatchArm' in x[1]]
            return c[0][4] if c else None
        s1, s2 = site(pats[0][0]), site(pats[1][0])
        left, right = site(lit[0][2][1]), site(lit[0][2][2])
        order = 'first,second' if (left, right) == (s1, s2) else ('second,first' if (left, right) == (s2, s1) else '?')
        combos[(pats[0][1], pats[1][1])] = order
    exp = {('Left', 'Right'): 'first,second', ('Right', 'Left'): 'second,first', ('None', 'Some'): 'first,second', ('Some', 'None'): 'second,first',
           ('False', 'True'): 'first,second', ('True', 'False'): 'second,first'}
    ctx.ob(rid, 'match-arms', combos == exp, 'match arm normalisation: (left arm, right arm) = (Left|None|false arm, Right|Some|true arm) for all six orders', mp.where(), str(combos))
