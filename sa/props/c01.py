"""C01 Compiled program behaves as the source semantics prescribe (per-form translation schema)."""
import json
import os
import re
import sys

from ..core import sv, walk, Explorer
from ..util import *
from ..simpl import *
from ..termx import *
from .layout import S, strip

EXPLANATION = ('Compiler correctness over all programs is not decided. Decided: schema conformance of code generation. For each syntactic form '
               '(4 block forms, 14 single-expression forms, 12 call forms, match, program entry) the Simplicity term the compile arm emits is '
               'reconstructed from MIR with children as holes, evaluated symbolically on an arbitrary environment, and compared semantically '
               '(value and set of forced sub-programs per case branch) with the reviewed schema in tables/schemas.json; the order of scope '
               'mutations relative to child compilations must equal the schema\'s (environment-shape invariant: the value paired to the left of '
               'the environment is the one whose pattern was pushed last). Helper summaries (tuple = balanced pair tree, list = partition of '
               'blocks, variable = first pre-order occurrence in the newest-first product, selectors o/i/h) are each checked from their own MIR. '
               'Structural induction over forms: each form is checked once with children universally quantified.')
NOT_DECIDED = ['semantics of combinators, scribe, jets and the Bit Machine in simplicity-lang', 'encode/decode', 'that the schema table matches the book beyond the review recorded in tables/schemas.md']
ASSUMPTIONS = ['standard semantics of Simplicity combinators', 'assertl/assertr: pruned branch fails']

VERIF = os.path.dirname(os.path.dirname(os.path.dirname(os.path.abspath(__file__))))
TABLE = os.path.join(VERIF, 'tables', 'schemas.json')

COMPILE = ('compile::<impl ast::Expression>::compile', 'compile::<impl ast::SingleExpression>::compile', 'compile::<impl ast::Call>::compile',
           'compile::<impl ast::Match>::compile', 'compile::compile_blk')
FORMS = ['compile::compile_blk', 'compile::<impl ast::Expression>::compile', 'compile::<impl ast::SingleExpression>::compile',
         'compile::<impl ast::Call>::compile', 'compile::<impl ast::Match>::compile', 'compile::<impl ast::Program>::compile']
SCOPE_EVENTS = ('push_scope', 'pop_scope', 'insert', 'child', 'new')


def is_scope(a):
    return isinstance(a, tuple) and a and a[0] == 'param' and a[2] == 'scope'


def _canon_access(v):
    """`xs.get(i)` matched as Some is the element `xs[i]`."""
    if not isinstance(v, tuple) or not v:
        return v
    if v[0] == 'field' and len(v) == 3 and v[2] == '0' and isinstance(v[1], tuple) and v[1] and v[1][0] == 'down' and v[1][2] == 'Some' \
            and is_call(v[1][1]) and v[1][1][1].split('::')[-1] == 'get' and len(v[1][1][2]) == 2 and ('slice' in v[1][1][1] or 'Vec' in v[1][1][1]):
        return ('index', _canon_access(v[1][1][2][0]), _canon_access(v[1][1][2][1]))
    if v[0] == 'call' and v[2] and (v[1].split('::')[-1] in ('as_deref', 'as_deref_mut') or
                                  (v[1].split('::')[-1] == 'map' and len(v[2]) == 2 and isinstance(v[2][1], tuple) and v[2][1][0] == 'fn' and v[2][1][1].split('::')[-1] in ('as_ref', 'deref', 'as_deref', 'borrow'))):
        return _canon_access(v[2][0])       # Option<Arc<T>> seen as Option<&T>: the same value
    return tuple(_canon_access(x) if isinstance(x, tuple) else x for x in v)


def PS(v):
    """Render with parameters by position-independent names kept (parameter names are part of the hole id)."""
    return S(_canon_access(v))


def hole_of(v):
    if isinstance(v, tuple) and v and v[0] == 'call' and v[1] in COMPILE:
        args = [a for a in v[2] if not is_scope(a) and not (is_call(a, 'compile::Scope::child'))]
        child = [a for a in v[2] if is_call(a, 'compile::Scope::child')]
        name = 'compile_blk' if v[1].endswith('compile_blk') else 'compile'
        s = '%s(%s)' % (name, ', '.join(PS(a) for a in args))
        if child:
            s += ' in child(%s)' % PS(child[0][2][1])
        return s
    return None


class Summaries:
    """Recognisers for the n-ary helpers; each recognised shape is justified by obligations on the closures involved."""

    def __init__(self, ctx, fx):
        self.ctx = ctx
        self.fx = fx
        self.obl = []

    def closure_single(self, cl):
        fn = self.fx.F.get(cl)
        if fn is None:
            return None
        rets = [(p, r) for k, p, r in Explorer(fn, facts=self.fx).run() if k == 'RET']
        self.ctx.saw(fn)
        return fn, rets

    def tuple_like(self, rc, v, depth):
        # unwrap_or_else(fold(from_slice(collect(map(iter(X), closure_compile))), pair), closure_unit)
        a = v[2]
        f = a[0]
        ok = (is_call(f, 'array::BTreeSlice::fold') and f[2][1][0] == 'fn' and f[2][1][1] == 'named::PairBuilder::pair'
              and is_call(f[2][0], 'array::BTreeSlice::from_slice'))
        if not ok:
            raise Opaque('not the tuple shape: ' + S(v))
        src = f[2][0][2][0]
        elems = self.elements(src)
        # default closure: unit
        cl = a[1]
        okc = False
        if cl[0] == 'agg' and cl[1].startswith('closure:'):
            r = self.closure_single(cl[1][8:])
            if r and len(r[1]) == 1:
                try:
                    t = Reconstructor(self.fx).term(r[1][0][1])
                    okc = t == ('unit',)
                except Opaque:
                    okc = False
        self.obl.append(('tuple:empty-is-unit', okc, 'the empty tuple/array compiles to unit'))
        return ('hole', 'TUPLE[%s]' % elems)

    def elements(self, src):
        # collect(map(iter(X), |e| e.compile(scope)))
        m = src
        while is_call(m) and m[1].split('::')[-1] in ('collect',):
            m = m[2][0]
        if not (is_call(m, 'std::iter::Iterator::map') and is_call(m[2][0], 'iter')):
            raise Opaque('not a map over elements: ' + S(src))
        X = m[2][0][2][0]
        cl = m[2][1]
        ok = False
        if cl[0] == 'agg' and cl[1].startswith('closure:'):
            r = self.closure_single(cl[1][8:])
            if r and len(r[1]) == 1:
                ret = strip(r[1][0][1])
                ok = is_call(ret, 'compile::<impl ast::Expression>::compile') and ret[2][0][0] == 'param' and ret[2][0][1] == 1 and ret[2][1][0] == 'field' and ret[2][1][1][0] == 'param' and ret[2][1][1][1] == 0 and S(cl[2][0]) == 'scope' and len(cl[2]) == 1
                ok = ok and not [e for e in event_calls(r[1][0][0]) if e[1].startswith('compile::Scope::') and e[1].split('::')[-1] in ('push_scope', 'pop_scope', 'insert')]
        self.obl.append(('elements:compile-each:' + S(X), ok, 'every element is compiled with e.compile(scope) under the unchanged scope'))
        return S(X)

    def list_like(self, rc, v, depth):
        # fold(from_slice(collect(map(iter(X), c)), bound), block_closure, pair)
        a = v[2]
        ok = is_call(a[0], 'array::Partition::from_slice') and a[2][0] == 'fn' and a[2][1] == 'named::PairBuilder::pair'
        if not ok:
            raise Opaque('not the list shape: ' + S(v))
        elems = self.elements(a[0][2][0])
        bound = S(a[0][2][1])
        cl = a[1]
        okb = False
        detail = ''
        if cl[0] == 'agg' and cl[1].startswith('closure:'):
            r = self.closure_single(cl[1][8:])
            if r:
                got = {}
                for p, ret in r[1]:
                    lab = [l for w, l in p.conds if l in ('None', 'Some')]
                    try:
                        t = Reconstructor(self.fx, hole_of=lambda x: 'BLOCK' if (isinstance(x, tuple) and x[0] == 'field' and x[1][0] == 'down' and x[1][2] == 'Some') else None).term(ret)
                    except Opaque as e:
                        t = ('opaque', str(e))
                    got[lab[0] if lab else '?'] = t
                    fold = [w for w, l in p.conds if is_call(w, 'array::BTreeSlice::fold')]
                    if not fold or not (fold[0][2][1][0] == 'fn' and fold[0][2][1][1] == 'named::PairBuilder::pair' and S(fold[0][2][0]) == 'from_slice(block)'):
                        got['shape'] = False
                okb = got == {'None': ('injl', ('unit',)), 'Some': ('injr', ('hole', 'BLOCK'))}
                detail = str({k: tstr(t) if isinstance(t, tuple) else t for k, t in got.items()})
        self.obl.append(('list:block', okb, 'a block is injl unit when empty and injr (balanced pair tree of its elements) otherwise ' + detail))
        return ('hole', 'LIST[%s; %s]' % (elems, bound))


def signatures(ctx):
    """One row per (function, path): form conditions, reconstructed term, scope/compile event order."""
    fx = ctx.facts()
    rows = []
    sm = Summaries(ctx, fx)

    def wds(rc, v, depth):
        return ('comp', rc.term(v[2][1], depth + 1), rc.term(v[2][2], depth + 1))

    def lookup(rc, v, depth):
        return ('hole', 'LOOKUP[%s]' % S(v[2][1]))

    def unwrap_or_else(rc, v, depth):
        return sm.tuple_like(rc, v, depth)

    def pfold(rc, v, depth):
        return sm.list_like(rc, v, depth)

    def ok_or(rc, v, depth):
        return rc.term(v[2][0], depth + 1)
    def loopfn(rc, v, depth):
        return ('hole', '%s(%s)' % (v[1].split('::')[-1], ', '.join(hole_of(a) or S(a) for a in v[2])))
    extra = {'compile::list_fold': loopfn, 'compile::for_while': loopfn, 'compile::Scope::with_debug_symbol': wds, 'compile::Scope::get': lookup, 'std::option::Option::unwrap_or_else': unwrap_or_else,
             'array::Partition::fold': pfold, 'std::option::Option::ok_or': ok_or}
    for path in FORMS:
        fn = ctx.anchor(fx, path)
        rc = Reconstructor(fx, hole_of=hole_of, extra=extra)
        for kind, p, ret in explore(ctx, fn):
            form = ' & '.join('%s=%s' % (S(w), l) for w, l in p.conds)
            if kind != 'RET':
                rows.append({'fn': path, 'form': form, 'kind': kind, 'term': None, 'events': [], 'error': str(ret)[:200]})
                continue
            try:
                t = rc.term(ret)
                err = None
            except Opaque as e:
                t, err = None, str(e)
            ev = []
            for e in p.events:
                if e[0] != 'call':
                    continue
                c = e[1]
                last = c.split('::')[-1]
                if c in COMPILE:
                    ev.append(hole_of(('call', c, e[2])))
                elif c.startswith('compile::Scope::') and last in SCOPE_EVENTS:
                    ev.append('%s(%s)' % (last, ', '.join(PS(a) for a in e[2] if not is_scope(a))))
                elif c in ('compile::list_fold', 'compile::for_while'):
                    ev.append('%s(%s)' % (last, ', '.join(hole_of(a) or PS(a) for a in e[2])))
                elif last == 'unify' and 'Context' in c:
                    ev.append('unify(target, %s)' % PS(e[2][2]))
            rows.append({'fn': path, 'form': form, 'kind': 'RET', 'term': t, 'events': ev, 'error': err})
        for pth in rc.inlined:
            ctx.analysed['functions'].add(pth)
    return rows, sm.obl


# ---- tiny parser for the tstr syntax used in the table -----------------------------------------
def parse_term(s):
    s = s.strip()
    pos = [0]

    def peek():
        return s[pos[0]] if pos[0] < len(s) else ''

    def ws():
        while peek() == ' ':
            pos[0] += 1

    def bracketed(op, cl):
        depth = 0
        start = pos[0]
        while pos[0] < len(s):
            ch = s[pos[0]]
            if ch == op:
                depth += 1
            elif ch == cl:
                depth -= 1
                if depth == 0:
                    pos[0] += 1
                    return s[start + 1:pos[0] - 1]
            pos[0] += 1
        raise ValueError('unbalanced ' + op)

    def term():
        ws()
        if peek() == '⟨':
            return ('hole', bracketed('⟨', '⟩'))
        m = re.match(r'[a-z_]+', s[pos[0]:])
        if not m:
            raise ValueError('bad term at %d in %s' % (pos[0], s))
        name = m.group(0)
        pos[0] += len(name)
        if name in ('iden', 'unit', 'fail'):
            return (name,)
        if name in ('scribe', 'witness', 'jet'):
            return (name, bracketed('[', ']'))
        assert peek() == '(', 'expected ( after %s in %s' % (name, s)
        pos[0] += 1
        args = []
        while True:
            ws()
            if name in ('assertl',) and len(args) == 1 or name in ('assertr',) and len(args) == 0:
                # cmr argument: raw text up to the matching , or )
                depth = 0
                st = pos[0]
                while pos[0] < len(s):
                    ch = s[pos[0]]
                    if ch in '([':
                        depth += 1
                    elif ch in ')]':
                        if depth == 0:
                            break
                        depth -= 1
                    elif ch == ',' and depth == 0:
                        break
                    pos[0] += 1
                args.append(s[st:pos[0]].strip())
            else:
                args.append(term())
            ws()
            if peek() == ',':
                pos[0] += 1
                continue
            if peek() == ')':
                pos[0] += 1
                break
            raise ValueError('bad args at %d in %s' % (pos[0], s))
        return (name,) + tuple(args)
    t = term()
    return t


def norm_scribe(t):
    """scribe payloads are symbolic values in reconstructed terms and strings in parsed ones: compare by rendering."""
    if not isinstance(t, tuple):
        return t
    if t[0] == 'scribe':
        return ('scribe', t[1] if isinstance(t[1], str) else S(t[1]))
    return tuple(norm_scribe(x) if isinstance(x, tuple) else x for x in t)


def schema_rules(ctx, only=None):
    rid = 'R01.1'
    ctx.rule(rid, 'schema conformance: per syntactic form, emitted term ≡ reviewed schema term (symbolic evaluation) and scope/compile event order = schema order')
    ctx.rule('R01.1s', 'summaries used by the schemas are justified from the helper bodies (element closure, empty tuple, list block wrapper)')
    rows, obl = signatures(ctx)
    table = json.load(open(TABLE))['rows']
    by_key = {}
    for r in table:
        by_key[(r['fn'], r['form'])] = r
    seen = set()
    if only is not None:
        # `only`: set of function paths, or {function path: regex over the form label (None = all forms)}
        sel = only if isinstance(only, dict) else {f: None for f in only}

        def keep(fn, form):
            return fn in sel and (sel[fn] is None or re.search(sel[fn], form) is not None)
        rows = [r for r in rows if keep(r['fn'], r['form'])]
        by_key = {k: v for k, v in by_key.items() if keep(k[0], k[1])}
    # a code generation path is matched with a schema row of its function by content (same event sequence, equivalent term),
    # not by the conditions it is reached under: `if i >= len { .. } match &stmts[i]` and `match stmts.get(i)` are the same forms
    def equiv(r, exp):
        if exp.get('kind', 'RET') != r['kind']:
            return False, None
        if r['kind'] != 'RET':
            return True, r['error']
        if r['term'] is None:
            return False, r['error']
        ref = parse_term(exp['term'])
        rho = V('ρ')
        got = outcomes_key(evaluate(norm_scribe(r['term']), rho))
        want = outcomes_key(evaluate(norm_scribe(ref), rho))
        return got == want, None
    used = set()
    for r in rows:
        short_fn = r['fn'].split('::')[-2].replace('<impl ast::', '').replace('>', '') + '::' + r['fn'].split('::')[-1] if 'impl' in r['fn'] else r['fn'].split('::')[-1]
        k = 'form:%s[%s]' % (short_fn, r['form'])
        where = ctx.facts().fn(r['fn']).where()
        cands = [(key, exp) for key, exp in by_key.items() if key[0] == r['fn'] and key not in used]
        # prefer the row filed under the same conditions, then any row of the function
        cands.sort(key=lambda kv: kv[0][1] != r['form'])
        hit, why = None, None
        for key, exp in cands:
            try:
                ok, _ = equiv(r, exp)
            except Opaque as e:
                ok, why = False, 'evaluation failed: %s' % e
            except Exception as e:
                ok, why = False, 'schema table row unparsable: %s' % e
            if ok and (r['kind'] != 'RET' or r['events'] == exp['events']):
                hit = (key, exp)
                break
        if hit is None:
            # report against the row filed under the same conditions when there is one
            same = by_key.get((r['fn'], r['form']))
            detail = 'term = %s; events = %s' % (tstr(norm_scribe(r['term'])) if r['term'] else r['error'], r['events'])
            if same is not None and (r['fn'], r['form']) not in used:
                used.add((r['fn'], r['form']))
                seen.add((r['fn'], r['form']))
                if r['kind'] == 'RET' and r['term'] is not None and same.get('kind', 'RET') == 'RET':
                    try:
                        eq, _ = equiv(r, same)
                    except Exception as e:
                        eq, why = False, str(e)
                    if not eq:
                        rho = V('ρ')
                        try:
                            detail = 'emitted: %s\n     schema:  %s\n     emitted ρ ↦ %s\n     schema  ρ ↦ %s' % (tstr(norm_scribe(r['term'])), same['term'], outs_str(evaluate(norm_scribe(r['term']), rho)), outs_str(evaluate(norm_scribe(parse_term(same['term'])), rho)))
                        except Exception:
                            pass
                        ctx.ob(rid, k, False, 'emitted term ≡ schema: %s' % same.get('meaning', ''), where, detail)
                    else:
                        ctx.ob(rid, k, True, 'emitted term ≡ schema: %s' % same.get('meaning', ''), where, detail)
                        ctx.ob('R01.2', k, False, 'scope mutations and child compilations happen in the schema\'s order', where, 'emitted order: %s\n     schema order:  %s' % (r['events'], same['events']))
                else:
                    ctx.ob(rid, k, False, 'code generation path ≡ schema row: %s' % same.get('meaning', ''), where, why or detail)
            else:
                ctx.ob(rid, k, False, 'code generation path without a reviewed schema', where, why or detail)
            continue
        used.add(hit[0])
        seen.add(hit[0])
        exp = hit[1]
        if r['kind'] != 'RET':
            ctx.ob(rid, k, True, 'non-returning path (%s) is listed in the schema table' % r['kind'], where, r['error'])
            continue
        ctx.ob(rid, k, True, 'emitted term ≡ schema: %s' % exp.get('meaning', ''), where, 'emitted: %s' % tstr(norm_scribe(r['term'])))
        ctx.ob('R01.2', k, True, 'scope mutations and child compilations happen in the schema\'s order', where, str(r['events']))
    ctx.rule('R01.2', 'environment-shape invariant: order of push_scope/insert/pop_scope/child relative to child compilations = schema')
    for key, r in by_key.items():
        if key not in seen:
            ctx.ob(rid, 'missing-form:%s[%s]' % (key[0].split('::')[-1], key[1]), False, 'schema form has no code generation path any more', None)
    ctx.floor(rid, 'code generation paths', len(rows), 34 if only is None else 1)
    for name, ok, desc in obl:
        ctx.ob('R01.1s', name, ok, desc)


def check(ctx):
    schema_rules(ctx)
    from . import c14, binding, layout
    c14.r_neutral(ctx)
    binding.r_selectors(ctx, 'R01.3')
    binding.r_lookup(ctx, 'R01.4')
    layout.r_btree(ctx, 'R01.5')
    layout.r_partition(ctx, 'R01.6')
    binding.r_base_pattern(ctx, 'R01.7')
    binding.r_tags(ctx, 'R01.8')
    from . import c08, c09
    c07_ = __import__('sa.props.c07', fromlist=['x'])
    c07_.r_layout_tables(ctx, 'R01.11', c07_.LAYOUT_CONSTRUCT, 20)
    from . import c04 as c04_
    from .. import guards as guards_
    c04_.group_rule(ctx, 'R01.13', guards_.ACCESSORS, 'structural accessors (children of tree nodes in order, type deconstructors, variant-to-variant tables)', 40)
    c04_.group_rule(ctx, 'R01.12', c04_.PARSERS, 'parse-tree construction (every PestParse::parse): the compiled program is the program that was written', 30)
    c08.r_equations(ctx)
    c08.r_wiring(ctx)
    c09.r_equations(ctx)
    c09.r_stack(ctx)
    # constants: the value a literal denotes and its structural encoding (shared with C07 / C11)
    from . import c07, c11
    from .. import guards
    c07.r_uint_tables(ctx, only=c07.UINT_KEYS - {'as_integer:shifts'})   # the destructor table belongs to C07/C14
    c07.r_sum_leaves(ctx)
    c07.r_value_to_structural(ctx, 'R01.9')
    ctx.rule('R01.9', 'constants: literal converters and Value -> StructuralValue build the structural value of the written literal (decision tables + constructor tables)')
    table = guards.load_table()
    guards.compare(ctx, 'R01.9', sorted(p for p in table if c11.LIT.match(p)), table, 'literal converters')


if __name__ == '__main__':
    from ..run import Ctx
    ctx = Ctx('C01', 'quick')
    rows, obl = signatures(ctx)
    for r in rows:
        print(json.dumps({'fn': r['fn'], 'form': r['form'], 'kind': r['kind'], 'term': tstr(norm_scribe(r['term'])) if r['term'] else None, 'events': r['events'], 'error': r['error']}, ensure_ascii=False))
    for o in obl:
        print('#', o)
