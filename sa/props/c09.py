"""C09 for_while iterates 0,1,2,... and stops at the first Left."""
import re
from ..core import sv, walk
from ..util import *
from ..simpl import *
from ..termx import *
from . import layout
from .layout import S

EXPLANATION = ('Decides the two building-block equations of the emitted loop combinator by symbolic evaluation of the terms reconstructed from MIR: '
               'for_while_0[f](acc,ctx) = case f(acc,(ctx,0)) {L b => L b (second application not forced) | R a => f(a,(ctx,1))} and '
               'adapt[f](acc,((c,hi),lo)) = f(acc,(c,(hi,lo))) (outer loop = high half of the counter), plus the structural wiring of the task '
               'stack that composes them (initial fill ForWhile0, size 2·width−1, doubling copy with Adapt at tail[index], pop order, arm ↦ builder), '
               'the ForWhile arm of Call::compile and the counter-width guard {U1,U2,U4,U8,U16}. By induction over the doubling this yields '
               'iteration order 0,1,2,… with early exit; the induction itself is argued in DESIGN.md, not mechanised.')
NOT_DECIDED = ['"exactly 2^n iterations" as a run-time count', 'combinator semantics (trusted)', 'the composition word W_(k+1) = W_k W_k 1 is checked structurally (copy prefix to suffix, Adapt at the end), not by unrolling']
ASSUMPTIONS = ['standard semantics of Simplicity combinators', 'big-endian uN layout (C07 R07.4): high half first']

FW = 'compile::for_while'


def r_equations(ctx):
    rid = 'R09.1'
    ctx.rule(rid, 'equations of for_while_0 and adapt_f (symbolic evaluation of the reconstructed terms)')
    fx = ctx.facts()
    f0 = ctx.anchor(fx, FW + '::for_while_0')
    ts = fn_terms(ctx, f0, {0: 'f'})
    ctx.ob(rid, 'for_while_0:single-path', len(ts) == 1 and ts[0][1] is not None, 'for_while_0 builds one term', f0.where(), ts[0][2] if ts else None)
    if ts and ts[0][1]:
        first = 'f(acc, (ctx, L ()))'
        second = 'f(unr(%s), (ctx, R ()))' % first
        expect_outcomes(ctx, rid, 'for_while_0:equation', 'counter bit 0 first; Left result returned without running the second iteration; Right result threaded into iteration 1 with the same ctx',
                        f0.where(), ts[0][1], P(V('acc'), V('ctx')),
                        [(((first, 'L'),), 'L unl(%s)' % first, (first,)),
                         (((first, 'R'),), second, (first, second))])
    fa = ctx.anchor(fx, FW + '::adapt_f')
    ts = fn_terms(ctx, fa, {0: 'f'})
    ctx.ob(rid, 'adapt_f:single-path', len(ts) == 1 and ts[0][1] is not None, 'adapt_f builds one term', fa.where(), ts[0][2] if ts else None)
    if ts and ts[0][1]:
        v = 'f(acc, (c, (hi, lo)))'
        expect_outcomes(ctx, rid, 'adapt_f:equation', 'adapt re-associates ((c,hi),lo) to (c,(hi,lo)): the outer loop supplies the high half of the counter',
                        fa.where(), ts[0][1], P(V('acc'), P(P(V('c'), V('hi')), V('lo'))), [((), v, (v,))])


def r_stack(ctx):
    rid = 'R09.2'
    ctx.rule(rid, 'task stack wiring of for_while: fill ForWhile0 × (2·width − 1); for i = 2,4,..,≤ width: copy stack[..i−1] to stack[i−1..2(i−1)], stack[2(i−1)] = Adapt; pop from the end: ForWhile0 ↦ for_while_0, Adapt ↦ adapt_f; result = last value')
    fx = ctx.facts()
    fn = ctx.anchor(fx, FW)
    res = explore(ctx, fn, max_visits=2)
    # pop loop: arms
    arms = {}
    rets = []
    loops = None
    for kind, p, ret in res:
        if kind == 'RET' and ret_kind(ret) == 'ok':
            rets.append((p, ret))
        labs = [l for w, l in p.conds if l in ('ForWhile0', 'Adapt')]
        if kind in ('RET', 'LOOP') and len(labs) == 1 and kind == 'RET':
            v = strip_try(ret[2][0])
            if is_call(v):
                arms[labs[0]] = (v[1], S(v[2][0]))
        if kind == 'LOOP' and loops is None and any(is_call(w, 'le') for w, l in p.conds if l != '0'):
            pass
    f_name = fn.names.get(2, 'f')
    ctx.ob(rid, 'arm:ForWhile0', arms.get('ForWhile0') == (FW + '::for_while_0', f_name), 'Task::ForWhile0 applies for_while_0 to the current program', fn.where(), str(arms.get('ForWhile0')))
    ctx.ob(rid, 'arm:Adapt', arms.get('Adapt') == (FW + '::adapt_f', f_name), 'Task::Adapt applies adapt_f to the current program', fn.where(), str(arms.get('Adapt')))
    empty = [S(r) for p, r in rets if not [l for w, l in p.conds if l in ('ForWhile0', 'Adapt')]]
    ctx.ob(rid, 'result', bool(empty) and all(e == 'Ok{%s}' % f_name for e in empty), 'when the stack is empty the accumulated program is returned', fn.where(), str(empty[:2]))
    # facts of the fill and the copy loop, from any path that executed one copy iteration
    one = [p for kind, p, ret in res if kind in ('RET', 'LOOP') and event_calls(p, 'copy_from_slice')]
    ctx.ob(rid, 'copy-iteration-explored', bool(one), 'a path through one iteration of the doubling loop was explored', fn.where())
    if one:
        p = one[0]
        fe = event_calls(p, 'from_elem')
        fill_ok = len(fe) == 1 and S(fe[0][2][0]) == 'ForWhile0{}' and S(fe[0][2][1]) == 'SubWithOverflow(get(mul2(bit_width)), 1_usize).0'
        ctx.ob(rid, 'fill', fill_ok, 'stack = vec![ForWhile0; 2·bit_width − 1]', fn.where(fe[0][3] if fe else None), S(fe[0]) if fe else None)
        les = [(S(w), l) for w, l in p.conds if is_call(w, 'le')]
        ctx.ob(rid, 'loop-cond', bool(les) and les[0][0] == 'le(mul2(Pow2Usize{1_usize}), bit_width)' and les[0][1] != '0' and (len(les) < 2 or les[1][0] == 'le(mul2(mul2(Pow2Usize{1_usize})), bit_width)'),
               'doubling loop runs for i = 2·ONE, 4·ONE, … while i ≤ bit_width', fn.where(), str(les))
        sp = event_calls(p, 'split_at_mut')
        idx = 'SubWithOverflow(get(mul2(Pow2Usize{1_usize})), 1_usize).0'
        ok = len(sp) >= 1 and S(sp[0][2][1]) == idx and 'from_elem' in S(sp[0][2][0])
        ctx.ob(rid, 'split', ok, '(prefix, tail) = stack.split_at_mut(i − 1)', fn.where(sp[0][3] if sp else None), S(sp[0]) if sp else None)
        cp = event_calls(p, 'copy_from_slice')
        ok = False
        if cp:
            dst, src = S(cp[0][2][0]), S(cp[0][2][1])
            ok = dst.startswith('index_mut(split_at_mut(') and ').1, RangeTo{%s})' % idx in dst and src.startswith('split_at_mut(') and src.endswith(').0')
        ctx.ob(rid, 'copy', ok, 'tail[..i−1].copy_from_slice(prefix)', fn.where(cp[0][3] if cp else None), S(cp[0])[:300] if cp else None)
    # tail[index] = Adapt : an indexed store of the Adapt aggregate, recorded by the explorer as a projected place
    stores = []
    if one:
        env = one[0].env
        for k, v in env.items():
            if isinstance(k, tuple) and any(pp.startswith('[_') for pp in k[1]) and isinstance(v, tuple) and v[0] == 'agg' and v[1].endswith('Task::Adapt'):
                stores.append(k)
    ctx.ob(rid, 'adapt-store', len(stores) == 1, 'exactly one indexed store of Task::Adapt (tail[index] = Adapt)', fn.where())
    if stores:
        base, proj = stores[0]
        il = int([pp for pp in proj if pp.startswith('[_')][0][2:-1])
        env = one[0].env
        ok = S(env.get(il, ('undef', il))) == 'SubWithOverflow(get(mul2(Pow2Usize{1_usize})), 1_usize).0' and S(env.get(base, ('undef', base))).endswith(').1') and 'split_at_mut' in S(env.get(base, ('undef', base)))
        ctx.ob(rid, 'adapt-store:position', ok, 'the store writes tail[i − 1] (the element right after the copied suffix)', fn.where(), 'base=%s index=%s' % (S(env.get(base, ('undef', base)))[:120], S(env.get(il, ('undef', il)))))
    adapt_aggs = sum(1 for b in fn.blocks.values() if not b['cleanup'] for st in b['stmts'] if st['rv']['k'] == 'agg' and st['rv']['kind'].endswith('Task::Adapt'))
    ctx.ob(rid, 'adapt-store:unique', adapt_aggs == 1, 'Task::Adapt is constructed at exactly one place', fn.where())
    layout.r_pow2(ctx, rid)


def r_call_site(ctx):
    rid = 'R09.3'
    ctx.rule(rid, 'ForWhile arm of Call::compile: body compiled in a child scope of the parameters, loop = for_while(bit_width, body), result = args ; loop; width admitted by analysis ∈ {U1,U2,U4,U8,U16}')
    fx = ctx.facts()
    fn = ctx.anchor(fx, 'compile::<impl ast::Call>::compile')
    n = 0
    for kind, p, ret in explore(ctx, fn):
        if kind != 'RET' or not any(l == 'ForWhile' for w, l in p.conds):
            continue
        n += 1
        lf = event_calls(p, FW)
        ok = len(lf) == 1
        if ok:
            b, body = lf[0][2]
            ok = (S(b).endswith('@ForWhile.1') and is_call(body, 'compile::<impl ast::Expression>::compile') and is_call(body[2][0], 'ast::CustomFunction::body')
                  and is_call(body[2][1], 'compile::Scope::child') and is_call(body[2][1][2][1], 'ast::CustomFunction::params_pattern')
                  and body[2][0][2][0] == body[2][1][2][1][2][0])
            v = ret[2][0]
            ok = ok and is_call(v, 'named::PairBuilder::comp') and is_call(v[2][0], 'compile::<impl ast::SingleExpression>::compile') and bool(calls_in(v[2][1], FW))
        ctx.ob(rid, 'for_while-arm', ok, 'for_while::<f>(acc, ctx) = args ; for_while(width, compile(f.body) under Scope::child(f.params_pattern))', fn.where(lf[0][3] if lf else None), sv(ret))
    ctx.floor(rid, 'ForWhile arm', n, 1)
    # analysis guard: counter widths
    an = ctx.anchor(fx, '<ast::CallName as ast::AbstractSyntaxTree>::analyze')
    widths = set()
    okc = 0
    for kind, p, ret in explore(ctx, an, follow_break=True):
        if kind != 'RET' or ret_kind(ret) != 'ok':
            continue
        lit = [x for x in walk(ret) if x[0] == 'agg' and x[1] == 'adt:ast::CallName::ForWhile']
        if not lit:
            continue
        okc += 1
        for w, l in p.conds:
            if 'as_integer' in sv(w) and l not in ('Some', 'None'):
                widths.add(l)
        bw = lit[0][2][1]
        ctx.ob(rid, 'width:bit_width', is_call(bw, 'types::UIntType::bit_width'), 'the loop width passed on is the bit width of the counter type', an.where(), sv(bw))
    ws = set()
    for w in widths:
        ws |= set(w.split('|'))
    ctx.ob(rid, 'width:set', ws >= {'U1', 'U2', 'U4', 'U8', 'U16'}, 'counter types u1,u2,u4,u8,u16 are admitted for for_while (found %s)' % sorted(ws), an.where())


def check(ctx):
    r_equations(ctx)
    r_stack(ctx)
    r_call_site(ctx)
    # the loop is unrolled for the bit width the counter type reports
    from . import c12
    c12.r_argument_scopes(ctx)      # the loop body is compiled in a child scope: its `param::X` must resolve
    from . import c07
    c07.r_uint_tables(ctx, only={'bit_width', 'from_bit_width'})
