"""C12 Template instantiation equals literal substitution."""
import re
from ..core import sv, walk
from ..util import *
from .. import guards
from .layout import S
from . import c01

EXPLANATION = ('Decides (R12.1) parameters() reports exactly the param::NAME occurrences: every construction of the Parameter AST node is gated by a '
               'successful insert_parameter(name, expected type) of the same name, insert_parameter has no other caller, its decision table '
               '(same name must have the same type) equals the reviewed one, and the map reaches TemplateProgram::parameters unchanged; '
               '(R12.2) instantiate fails exactly on a missing or mistyped argument: Arguments::is_consistent(self parameters) gates compile with '
               'the same arguments, its decision table (iterate the parameters, missing ⇒ ArgumentMissing, nominal type mismatch ⇒ '
               'ArgumentTypeMismatch, extras ignored) equals the reviewed one; (R12.3) a parameter is compiled by the schema of a literal '
               '(`comp unit (const v)`) with v = the argument of that name, and function bodies see the same arguments (Scope::child copies them). '
               'Equality of run-time behaviour with the literally substituted program follows from C01 for the two identical schemas; that '
               'the printed literal of an argument parses back to it is C15.')
NOT_DECIDED = ['print/parse round trip of argument values (C15)', 'run-time behaviour beyond schema identity (C01 trusted base)']
ASSUMPTIONS = []


def r_instantiate_gate(ctx, rid):
    ctx.rule(rid, 'TemplateProgram::instantiate: `arguments.is_consistent(self.simfony.parameters())?` = Continue on every path that compiles; compile receives the same arguments; the error is returned')
    fx = ctx.facts()
    fn = ctx.anchor(fx, 'TemplateProgram::instantiate')
    n = 0
    brk = False
    for kind, p, ret in explore(ctx, fn, follow_break=True):
        lab = try_cond_of(p, 'is_consistent')
        if lab == 'Break' and kind == 'RET' and ret_kind(ret) == 'residual':
            brk = True
        for e in event_calls(p, 'compile'):
            if 'ast::Program' not in e[1]:
                continue
            n += 1
            ok = lab == 'Continue'
            detail = None
            if ok:
                ic = [w for w, l in p.conds if isinstance(w, tuple) and w[0] == 'try' and calls_in(w, 'is_consistent')][0]
                call = calls_in(ic, 'is_consistent')[0]
                ok = call[1] == 'witness::Arguments::is_consistent' and has_param(call[2][0], 'arguments') and is_call(call[2][1], 'ast::Program::parameters') and field_of_param(call[2][1], 'self', 'simfony')
                ok = ok and field_of_param(e[2][0], 'self', 'simfony') and e[2][1] == call[2][0]
                detail = 'is_consistent(%s, %s); compile(%s, %s, ..)' % (S(call[2][0]), S(call[2][1]), S(e[2][0]), S(e[2][1]))
            ctx.ob(rid, 'gate:compile', ok, 'arguments are checked against this program\'s parameters before compilation, and the same arguments are compiled', fn.where(e[3]), detail)
    ctx.floor(rid, 'paths reaching Program::compile', n, 1)
    ctx.ob(rid, 'gate:error-returned', brk, 'an inconsistent argument map makes instantiate return the error', fn.where())


def r_parameters(ctx):
    rid = 'R12.1'
    ctx.rule(rid, 'Parameter nodes are gated by insert_parameter(name, expected type); parameters() returns the collected map unchanged')
    fx = ctx.facts()
    an = ctx.anchor(fx, '<ast::SingleExpression as ast::AbstractSyntaxTree>::analyze')
    found = 0
    for kind, p, ret in explore(ctx, an, follow_break=True):
        if kind != 'RET' or ret_kind(ret) != 'ok':
            continue
        for lit in [x for x in walk(ret) if x[0] == 'agg' and x[1] == 'adt:ast::SingleExpressionInner::Parameter']:
            found += 1
            lab = try_cond_of(p, 'insert_parameter')
            ins = event_calls(p, 'ast::Scope::insert_parameter')
            ok = lab == 'Continue' and len(ins) == 1 and ins[0][2][1] == lit[2][0] and ins[0][2][2] == ('param', 1, an.names.get(2, 'ty'))
            ctx.ob(rid, 'analyze:insert_parameter-gates-Parameter', ok, 'Parameter(name) is built only after insert_parameter(name, expected type) succeeded', an.where(), S(ins[0]) if ins else None)
    ctx.floor(rid, 'Parameter AST constructions', found, 1)
    for f, bid, c, t in fx.callers_of('ast::Scope::insert_parameter'):
        ctx.ob(rid, 'insert_parameter-caller:' + f.path, f.path == an.path, 'insert_parameter is called only from SingleExpression::analyze', f.where(t['line']))
    for p2, f in fx.F.items():
        if f.macro:
            continue
        if any(st['rv']['k'] == 'agg' and st['rv']['kind'] == 'adt:ast::SingleExpressionInner::Parameter' for b in f.blocks.values() if not b['cleanup'] for st in b['stmts']):
            ctx.ob(rid, 'Parameter-constructor:' + p2, p2 == an.path, 'SingleExpressionInner::Parameter is constructed only in SingleExpression::analyze', f.where())
    # writers of Scope.parameters
    for p2, f in fx.F.items():
        if f.macro or not p2.startswith('ast::'):
            continue
        for bid, c, t in f.calls():
            if c.endswith('::entry') or c.endswith('::insert'):
                for a in t['args'][:1]:
                    pl = a.get('pl')
        # writes are through entry(): covered by the who-may-call rule on insert_parameter
    de = ctx.anchor(fx, 'ast::Scope::destruct')
    rets = [S(r) for k, p, r in explore(ctx, de) if k == 'RET']
    ctx.ob(rid, 'destruct', rets == ['tuple{from(self.parameters), from(self.witnesses), self.call_tracker}'], 'Scope::destruct hands the collected parameter and witness maps on unchanged', de.where(), str(rets))
    pa = ctx.anchor(fx, 'ast::Program::analyze')
    ok = False
    for k, p, r in explore(ctx, pa):
        if k == 'RET' and ret_kind(r) == 'ok':
            lit = [x for x in walk(r) if x[0] == 'agg' and x[1] == 'adt:ast::Program::Program']
            if lit:
                ok = S(lit[0][2][1]) == 'destruct(default()).0' and S(lit[0][2][2]) == 'destruct(default()).1'
    ctx.ob(rid, 'program:maps', ok, 'Program{parameters, witness_types} are the maps of the scope all items were analysed in', pa.where())
    tp = ctx.anchor(fx, 'TemplateProgram::parameters')
    rets = [S(r) for k, p, r in explore(ctx, tp) if k == 'RET']
    ctx.ob(rid, 'template:parameters', rets == ['parameters(self.simfony)'], 'TemplateProgram::parameters returns the analysed program\'s map', tp.where(), str(rets))
    table = guards.load_table()
    guards.compare(ctx, rid, ['ast::Scope::insert_parameter'], table, 'insert_parameter', guards.GUARD_FIELDS)


def r_arguments(ctx):
    rid = 'R12.2'
    r_instantiate_gate(ctx, rid)
    table = guards.load_table()
    guards.compare(ctx, rid, ['witness::Arguments::is_consistent', 'witness::Arguments::is_consistent::{closure#0}', 'value::Value::is_of_type'], table, 'Arguments::is_consistent')
    # the iteration domain is the parameter map (extras ignored), lookups go to the argument map
    fx = ctx.facts()
    fn = ctx.anchor(fx, 'witness::Arguments::is_consistent')
    ok_dom = ok_cmp = False
    for kind, p, ret in explore(ctx, fn, follow_break=True):
        if p.conds:
            it = p.conds[0][0]
            ok_dom = is_call(it) and it[1].endswith('::next') and has_param(it, 'parameters') and not has_param(it, 'self')
        for w, l in p.conds:
            if is_call(w, 'value::Value::is_of_type'):
                ok_cmp = bool(calls_in(w[2][0], 'witness::Arguments::get')) and 'parameters' in S(w[2][1])
    ctx.ob(rid, 'domain:parameters', ok_dom, 'the loop runs over the program\'s parameters (extra arguments are never looked at)', fn.where())
    ctx.ob(rid, 'compare:argument-vs-parameter', ok_cmp, 'the looked-up argument is compared with the parameter\'s type by Value::is_of_type (nominal ResolvedType equality)', fn.where())


def r_schema(ctx):
    rid = 'R12.3'
    ctx.rule(rid, 'a parameter compiles like a literal: `comp unit (const v)` with v = argument of that name; child scopes carry the same arguments')
    c01.schema_rules(ctx, only={'compile::<impl ast::SingleExpression>::compile': r'=(Parameter|Constant)\b'})
    fx = ctx.facts()
    rows, _ = c01.signatures(ctx)
    const = [r for r in rows if r['form'] == 'inner(self)=Constant']
    par = [r for r in rows if r['form'] == 'inner(self)=Parameter']
    ok = len(const) == 1 and len(par) == 1 and const[0]['term'] and par[0]['term']
    if ok:
        tc, tp = const[0]['term'], par[0]['term']
        ok = tc[0] == 'comp' and tp[0] == 'comp' and tc[1] == tp[1] == ('unit',) and tc[2][0] == tp[2][0] == 'scribe'
        vc, vp = tc[2][1], tp[2][1]
        ok = ok and S(vc) == 'from(inner(self)@Constant.0)' and S(vp) == 'from(get_argument(scope, inner(self)@Parameter.0))'
        ok = ok and is_call(vc) and is_call(vp) and vc[1] == vp[1]
    ctx.ob(rid, 'same-schema', ok, 'Constant and Parameter arms emit the same term over StructuralValue::from(value) resp. StructuralValue::from(argument)', None)
    r_argument_scopes(ctx)


def r_argument_scopes(ctx):
    """Shared with C03 (discharge of the expect in get_argument), C08 and C09 (fold / loop bodies are compiled in child scopes)."""
    rid = 'R12.3a'
    ctx.rule(rid, 'the arguments passed to Program::compile reach every compile scope: Scope::new stores them, Scope::child copies them, get_argument reads them (a `param::X` inside a called function, fold body or loop body resolves like in main)')
    fx = ctx.facts()
    ga = ctx.anchor(fx, 'compile::Scope::get_argument')
    rets = [S(r) for k, p, r in explore(ctx, ga) if k == 'RET']
    ctx.ob(rid, 'get_argument', len(rets) == 1 and rets[0].startswith('expect(get(self.arguments, name)'), 'get_argument(name) = self.arguments.get(name)', ga.where(), str(rets))
    ch = ctx.anchor(fx, 'compile::Scope::child')
    rets = [r for k, p, r in explore(ctx, ch) if k == 'RET']
    ctx.ob(rid, 'child:arguments', len(rets) == 1 and S(rets[0][2][3]) == 'self.arguments', 'Scope::child copies the arguments: parameters inside functions resolve to the same values', ch.where())
    nw = ctx.anchor(fx, 'compile::Scope::new')
    rets = [r for k, p, r in explore(ctx, nw) if k == 'RET']
    ctx.ob(rid, 'new:arguments', len(rets) == 1 and S(rets[0][2][3]) == 'arguments', 'the main scope holds the arguments passed to Program::compile', nw.where())


def check(ctx):
    r_parameters(ctx)
    ctx.rule('R12.2', 'instantiate gate and Arguments::is_consistent decision table')
    r_arguments(ctx)
    r_schema(ctx)
    # an argument reaches the program as const(StructuralValue::from(value)): the same conversion tables as constants and witnesses
    from . import c07
    c07.r_value_to_structural(ctx, 'R12.5')
    c07.r_layout_tables(ctx, 'R12.6', c07.LAYOUT_CONSTRUCT, 20)
    c07.r_uint_tables(ctx, only={'get_type', 'from-primitive', 'structural-value', 'structural-type'})   # the argument's reported type and its encoding
