"""Rules around CompiledProgram::satisfy_with_env / commit / to_witness_node (C02, C05, C18)."""
import re

from ..core import sv, walk, short
from ..util import *

SAT = 'CompiledProgram::satisfy_with_env'


def sat_paths(ctx):
    fx = ctx.facts()
    fn = ctx.anchor(fx, SAT)
    return fn, explore(ctx, fn, follow_break=True)


def r_consistency_gate(ctx, rid):
    """is_consistent(values, self.witness_types) gates to_witness_node(self.simplicity, values)."""
    ctx.rule(rid, 'in satisfy_with_env every path reaching to_witness_node passed `is_consistent(values, self.witness_types)?` = Continue with the same values; its Break is returned')
    fn, res = sat_paths(ctx)
    n_twn = 0
    brk = False
    for kind, p, ret in res:
        if p is None:
            ctx.ob(rid, 'paths:toomany', False, 'path explosion in ' + SAT)
            continue
        twn = event_calls(p, 'named::to_witness_node')
        lab = try_cond_of(p, 'is_consistent')
        if lab == 'Break':
            brk = brk or (kind == 'RET' and ret_kind(ret) == 'residual' and calls_in(ret, 'is_consistent'))
        for e in twn:
            n_twn += 1
            key = 'gate:%s' % cond_str(p.conds)[:160]
            ok = lab == 'Continue'
            detail = None
            if ok:
                # provenance of arguments
                ic = [w for w, l in p.conds if isinstance(w, tuple) and w[0] == 'try' and calls_in(w, 'is_consistent')][0]
                call = calls_in(ic, 'is_consistent')[0]
                if call[1] != 'witness::WitnessValues::is_consistent':
                    ok, detail = False, 'gate callee is %s, expected witness::WitnessValues::is_consistent' % call[1]
                elif not (has_param(call[2][0], 'witness_values') and field_of_param(call[2][1], 'self', 'witness_types')):
                    ok, detail = False, 'is_consistent arguments are (%s, %s), expected (witness_values, self.witness_types)' % (sv(call[2][0]), sv(call[2][1]))
                elif not (field_of_param(e[2][0], 'self', 'simplicity') and e[2][1] == call[2][0]):
                    ok, detail = False, 'to_witness_node arguments are (%s, %s), expected (self.simplicity, same witness_values)' % (sv(e[2][0]), sv(e[2][1]))
            else:
                detail = 'to_witness_node reached at line %s without a successful is_consistent check (conds: %s)' % (e[3], cond_str(p.conds))
            ctx.ob(rid, key, ok, 'witness values are type-checked against the recorded witness types before population', fn.where(e[3]), detail)
    ctx.floor(rid, 'paths reaching to_witness_node', n_twn, 2)
    ctx.ob(rid, 'gate:error-returned', brk, 'the error of is_consistent is propagated to the caller', fn.where())


def r_single_caller(ctx, rid, callee, expected):
    ctx.rule(rid, 'who-may-call: %s is called only from %s' % (callee, sorted(expected)))
    fx = ctx.facts()
    sites = fx.callers_of(callee)
    callers = {f.path for f, _, _, _ in sites}
    for f, bid, c, t in sites:
        ctx.saw(f)
        ctx.ob(rid, 'caller:%s->%s' % (f.path, callee), f.path in expected, '%s called from %s' % (callee, f.path), f.where(t['line']))
    for e in expected:
        ctx.ob(rid, 'expected-caller:%s->%s' % (e, callee), e in callers, 'expected call of %s in %s is present' % (callee, e))


def r_is_consistent_witness(ctx, rid):
    """Exact path structure of WitnessValues::is_consistent."""
    ctx.rule(rid, 'WitnessValues::is_consistent: iterate all supplied names; skip only undeclared names; nominal ResolvedType inequality => WitnessTypeMismatch; Ok only after exhaustion')
    fx = ctx.facts()
    fn = ctx.anchor(fx, 'witness::WitnessValues::is_consistent')
    res = explore(ctx, fn, follow_break=True)
    n_ok = n_err = n_skip = n_pass = 0
    for kind, p, ret in res:
        if p is None:
            ctx.ob(rid, 'paths:toomany', False, 'path explosion')
            continue
        conds = p.conds
        cs = cond_str(conds)
        where = fn.where()
        # first condition: iterator over the supplied map's keys
        if not conds:
            ctx.ob(rid, 'path:unconditional', False, 'unconditional exit of is_consistent: %s' % kind, where, sv(ret) if isinstance(ret, tuple) else None)
            continue
        it, lab = conds[0]
        it_ok = is_call(it) and it[1].endswith('::next') and has_param(it, 'self') and not has_param(it, 'witness_types')
        if not it_ok:
            ctx.ob(rid, 'iter:domain', False, 'loop does not iterate over the supplied values (self): %s' % sv(it), where)
            continue
        if lab == 'None':
            ok = kind == 'RET' and ret_kind(ret) == 'ok' and len(conds) == 1
            n_ok += 1
            ctx.ob(rid, 'exit:exhausted', ok, 'after the last supplied name the result is Ok(())', where, cs + ' => ' + sv(ret))
            continue
        # Some(name)
        name = ('field', ('down', it, 'Some'), '0')
        rest = conds[1:]
        if not rest:
            ctx.ob(rid, 'path:short', False, 'exit before looking up the declared type: %s' % kind, where, cs)
            continue
        g, glab = rest[0]
        g_ok = is_call(g, 'witness::WitnessTypes::get') and has_param(g[2][0], 'witness_types') and contains(g[2][1], it)
        if not g_ok:
            ctx.ob(rid, 'lookup:declared', False, 'first test on a supplied name is not `witness_types.get(name)`: %s' % sv(g), where, cs)
            continue
        if glab == 'None':
            n_skip += 1
            ctx.ob(rid, 'skip:undeclared', kind == 'LOOP' and len(rest) == 1, 'names the program does not declare are skipped (continue)', where, cs + ' => ' + kind)
            continue
        if len(rest) != 2:
            ctx.ob(rid, 'path:extra-conds', False, 'extra conditions on the type check path', where, cs)
            continue
        c, clab = rest[1]
        # comparison: ne/eq on &ResolvedType, between ty(value of this name) and declared
        cmp_ok = is_call(c) and re.search(r'::(ne|eq)$', c[1]) and 'types::ResolvedType' in c[3] and 'Structural' not in c[3]
        detail = None
        if not cmp_ok:
            detail = 'comparison is %s [%s], expected nominal ResolvedType ==/!=' % (sv(c), c[3] if is_call(c) else '')
        else:
            a, b = c[2]
            sides = [a, b]
            decl = [x for x in sides if contains(x, g)]
            asg = [x for x in sides if is_call(x, 'value::Value::ty') and contains(x, it) and has_param(x, 'self') and not contains(x, g)]
            if len(decl) != 1 or len(asg) != 1:
                cmp_ok = False
                detail = 'operands are (%s, %s), expected (type of the supplied value of this name, declared type)' % (sv(a), sv(b))
        if not cmp_ok:
            ctx.ob(rid, 'compare:nominal', False, 'type comparison of supplied vs declared witness type', where, detail)
            continue
        is_ne = c[1].endswith('::ne')
        differs = (clab != '0') if is_ne else (clab == '0')
        if differs:
            n_err += 1
            ok = kind == 'RET' and ret_kind(ret) == 'err' and err_variants(ret) == ['WitnessTypeMismatch']
            ctx.ob(rid, 'mismatch:error', ok, 'differing types => Err(WitnessTypeMismatch)', where, cs + ' => ' + sv(ret) if isinstance(ret, tuple) else kind)
        else:
            n_pass += 1
            ctx.ob(rid, 'match:continue', kind == 'LOOP', 'equal types => next name', where, cs + ' => ' + kind)
    ctx.ob(rid, 'shape:complete', (n_ok, n_err, n_skip, n_pass) == (1, 1, 1, 1),
           'is_consistent has exactly the four path classes (exhausted/mismatch/skip/match); found ok=%d err=%d skip=%d pass=%d' % (n_ok, n_err, n_skip, n_pass), fn.where())


def r_witness_node_typing(ctx, rid):
    """The type of a populated witness node is imposed by its value (the fresh inference context does not know the declared types)."""
    ctx.rule(rid, 'to_witness_node: for every witness node that receives a value, the node\'s target type is unified with StructuralType::from(value.ty()) in the fresh inference context (otherwise a never-inspected witness re-infers smaller than its value and the Bit Machine panics)')
    fx = ctx.facts()
    fns = fx.find(r'^<named::to_witness_node::Populator as .*>::convert_data$')
    ctx.floor(rid, 'Populator::convert_data', len(fns), 1)
    for fn in fns:
        seen = {'Some': False, 'None': False}
        for kind, p, ret in explore(ctx, fn, follow_break=True):
            if kind != 'RET':
                continue
            labs = [l for w, l in p.conds]
            if 'Witness' not in labs:
                continue
            has = [l for w, l in p.conds if is_call(w, 'witness::WitnessValues::get')]
            un = [e for e in event_calls(p, 'unify') if 'Context' in e[1]]
            if has and has[0] == 'Some':
                ok = len(un) == 1
                if ok:
                    e = un[0]
                    tgt, ty = e[2][1], e[2][2]
                    g = [w for w, l in p.conds if is_call(w, 'witness::WitnessValues::get')][0]
                    ok = ('target' in sv(tgt) and bool(calls_in(tgt, 'from_inner')) and is_call(ty, 'types::StructuralType::to_unfinalized')
                          and bool(calls_in(ty, 'value::Value::ty')) and contains(ty, g) and field_of_param(g[2][0], 'self', 'values'))
                seen['Some'] = True
                ctx.ob(rid, 'populated-node:typed-by-value', ok, 'a populated witness node is unified with the structural type of the value looked up under its own name', fn.where(), sv(un[0][2][2]) if un else 'no unify on this path')
            elif has:
                seen['None'] = True
                ctx.ob(rid, 'empty-node:untouched', not un, 'a witness node without value is left to inference', fn.where())
        ctx.ob(rid, 'witness-arm-present', seen['Some'], 'the Witness arm with an assigned value was found', fn.where())


def r_finalizers(ctx, rid, check_pruned_values=False):
    """Which finalizer runs on which arm, with which environment; result propagated."""
    ctx.rule(rid, 'satisfy_with_env: Some(env) => finalize_pruned(node, that env); None => finalize_unpruned(node); the finalizer Result reaches the return through `?`; node = to_witness_node(..)')
    fn, res = sat_paths(ctx)
    seen = {'Some': 0, 'None': 0}
    for kind, p, ret in res:
        if p is None or kind != 'RET' or ret_kind(ret) != 'ok':
            continue
        envc = [(w, l) for w, l in p.conds if isinstance(w, tuple) and w[0] == 'param' and w[2] == 'env']
        arm = envc[0][1] if envc else '?'
        fin = [e for e in event_calls(p) if re.search(r'::finalize_(pruned|unpruned)$', e[1])]
        where = fn.where(fin[0][3] if fin else None)
        if arm not in seen:
            ctx.ob(rid, 'arm:unknown', False, 'success path not controlled by `env`: %s' % cond_str(p.conds), where)
            continue
        seen[arm] += 1
        if len(fin) != 1:
            ctx.ob(rid, 'arm:%s:finalizer-count' % arm, False, 'expected exactly one finalizer call, found %d' % len(fin), where)
            continue
        e = fin[0]
        name = e[1].split('::')[-1]
        node_ok = bool(calls_in(e[2][0], 'named::to_witness_node'))
        if arm == 'Some':
            ok = name == 'finalize_pruned' and node_ok and len(e[2]) == 2 and e[2][1] == ('field', ('down', ('param', 2, 'env'), 'Some'), '0')
            ctx.ob(rid, 'arm:Some:finalize_pruned(env)', ok, 'Some(env) arm prunes with the caller-supplied environment', where, '%s(%s)' % (name, ', '.join(sv(a) for a in e[2])))
        else:
            ok = name in ('finalize_unpruned', 'finalize_pruned') and node_ok
            ctx.ob(rid, 'arm:None:finalizer', ok, 'None arm finalizes the populated node', where, '%s(%s)' % (name, ', '.join(sv(a) for a in e[2])))
        # result propagated through `?` and is the program returned
        lab = try_cond_of(p, name)
        sp = [x for x in walk(ret) if x[0] == 'agg' and x[1].endswith('SatisfiedProgram::SatisfiedProgram')]
        prog_ok = bool(sp) and bool(calls_in(sp[0][2][0], name))
        ctx.ob(rid, 'arm:%s:result-propagated' % arm, lab == 'Continue' and prog_ok, 'the finalizer result is unwrapped with `?` and becomes the returned program', where, sv(ret))
        if check_pruned_values:
            ctx.ob('R02.1', 'satisfy_with_env/env=%s/%s' % (arm, name), name == 'finalize_pruned',
                   'the encoding handed out is decodable on its own: the decoder re-infers witness types from the program alone, so the values '
                   'must be pruned to those minimal types (finalize_pruned does, finalize_unpruned does not: trailing bytes for a never-inspected witness)', where)
    for arm, n in seen.items():
        ctx.ob(rid, 'arm:%s:present' % arm, n == 1, 'exactly one success path for env=%s (found %d)' % (arm, n), fn.where())
