"""C06 Every text entry point is total: Ok or Err, never a panic."""
import re
from ..core import sv, walk, short
from ..util import *
from .. import panics
from ..pestshape import ShapeSim
from .layout import S, strip

EXPLANATION = ('Decides, for the analysed crate code and all inputs, that every panic-capable site (unwrap/expect, panic!/unreachable!/assert!, '
               'compiler-inserted overflow/bounds/division asserts, indexing and slicing calls) in a function reachable from a text entry point is '
               'discharged: G1/G2 by an iterator typestate analysis of the pest pair consumption against the grammar\'s child-sequence automaton '
               '(next()/peek().unwrap() never at a possibly-final state; unreachable arms on infeasible rule sets), the rest by the reviewed '
               'residue table tables/panic_sites.json (G3 stack folds, G4 typed-value invariant, G5 guarded conversions, G6 arithmetic / '
               'preconditions) keyed without line numbers. New sites, and shape-discharged sites whose guard disappears, are reported. '
               '(R06.2) recursion: every recursive call-graph edge among reachable functions is labelled as descending a bracket level or is a '
               'finding; (R06.3) allocation sizes taken from the input; (R06.4) grammar literal classes vs converter expectations. '
               'Panics, aborts and stack use inside pest, serde_json, simplicity-lang and std are not analysed.')
NOT_DECIDED = ['panics/aborts/stack depth inside dependencies', 'quadratic running time', 'G3..G6 rows are reviewed reasons: the check detects new or changed sites, not a change of the reason\'s truth']
ASSUMPTIONS = ['pest: successful parse yields one top-level pair; pair children follow the grammar', 'nesting depth <= 12 bounds bracket-descending recursion']


def panic_rule(ctx, rid, entries=None, what='the text entry points', config='default'):
    ctx.rule(rid, 'every panic-capable site reachable from %s is discharged (G1/G2 shape analysis, or reviewed residue table)' % what)
    fx = ctx.facts(config)
    if entries is None:
        ents, missing = panics.entries(fx, config)
        for m in missing:
            ctx.ob(rid, 'entry-missing:' + m, False, 'text entry point not found in the crate (fail closed)')
    else:
        ents = [ctx.anchor(fx, e).path for e in entries]
    reach = fx.reachable(ents)
    sim = ShapeSim(fx).run()
    table = panics.load_table()
    n_sites = n_shape = n_table = 0
    n_fns = 0
    cats = {}
    for p in sorted(reach):
        fn = fx.F[p]
        if fn.macro or '::promoted[' in p or fn.kind in ('Const', 'AssocConst'):
            continue
        n_fns += 1
        ctx.saw(fn)
        st = sim.results.get(p, {})
        for key, bid, kind, det, line, mac in panics.keyed_sites(fn):
            n_sites += 1
            if st.get(bid) in ('safe', 'infeasible'):
                n_shape += 1
                continue
            row = table.get(key)
            if row:
                n_table += 1
                for cited in re.findall(r'\bR\d\d\.\d+[a-z]?\b', row.get('why', '')):
                    ctx.cited_rules.setdefault(cited, key)
                cats[row['category']] = cats.get(row['category'], 0) + 1
                continue
            why = 'not discharged'
            if st.get(bid) == 'may':
                why = 'pair iterator may be exhausted / rule arm reachable here according to the grammar'
            ctx.ob(rid, 'site:' + key, False, 'panic-capable site %s:%s (%s) reachable from %s is neither shape-discharged nor in the reviewed table: %s' % (kind, det, mac or 'call', what, why), fn.where(line))
    ctx.ob(rid, 'inventory:%s' % config, True, '%d reachable functions, %d sites: %d discharged by grammar shape (G1/G2), %d by reviewed table %s' % (n_fns, n_sites, n_shape, n_table, cats))
    ctx.analysed['call_sites'] += n_sites
    return n_sites, n_shape, n_table


def r_shape_selftest(ctx):
    """The shape engine must report an unguarded next().unwrap() on an optional child (tiny positive example)."""
    from ..pestshape import ChildLang, IterState
    lang = ChildLang([{'name': 'f', 'ty': 'normal', 'e': {'k': 'seq', 'a': {'k': 'ident', 'v': 'a'}, 'b': {'k': 'opt', 'e': {'k': 'ident', 'v': 'b'}}}},
                      {'name': 'a', 'ty': 'atomic', 'e': {'k': 'str', 'v': 'x'}}, {'name': 'b', 'ty': 'atomic', 'e': {'k': 'str', 'v': 'y'}}])
    it = IterState(lang, {'f'})
    first_ok = not it.may_be_empty()
    it.advance()
    second_may = it.may_be_empty()
    ctx.ob('R06.1', 'selftest:optional-child', first_ok and second_may, 'shape engine: in `f = a ~ b?` the first next().unwrap() is safe, the second may panic')


RECURSION_OK = {
    # edge (caller -> callee) inside a recursive component : reason
    'parse': 'descends one level of the pest pair tree (bounded by the bracket nesting of the input)',
    'analyze': 'descends one level of the parse tree',
    'compile': 'descends one level of the AST',
    'fmt': 'descends one level of a tree-shaped value',
}


def r_recursion(ctx, config='default'):
    rid = 'R06.2'
    ctx.rule(rid, 'recursion: every call-graph cycle among functions reachable from the text entry points descends one bracket level per call (bounded by nesting depth 12); other recursive edges are findings')
    fx = ctx.facts(config)
    ents, _ = panics.entries(fx, config)
    reach = fx.reachable(ents)
    cg = fx.callgraph()
    user = {p for p in reach if not fx.F[p].macro}
    # Tarjan SCC on the user subgraph (edges through macro-generated functions are followed transitively)
    import sys
    sys.setrecursionlimit(20000)
    succ = {}
    for p in user:
        out = set()
        st = list(cg.get(p, ()))
        seen = set()
        while st:
            q = st.pop()
            if q in seen or q not in reach:
                continue
            seen.add(q)
            if q in user:
                out.add(q)
            else:
                st.extend(cg.get(q, ()))
        succ[p] = out
    idx, low, stack, on, sccs = {}, {}, [], set(), []
    counter = [0]

    def strong(v):
        idx[v] = low[v] = counter[0]
        counter[0] += 1
        stack.append(v)
        on.add(v)
        for w in succ[v]:
            if w not in idx:
                strong(w)
                low[v] = min(low[v], low[w])
            elif w in on:
                low[v] = min(low[v], idx[w])
        if low[v] == idx[v]:
            comp = []
            while True:
                w = stack.pop()
                on.discard(w)
                comp.append(w)
                if w == v:
                    break
            if len(comp) > 1 or v in succ[v]:
                sccs.append(comp)
    for v in sorted(user):
        if v not in idx:
            strong(v)
    n_edges = 0
    for comp in sccs:
        cs = set(comp)
        for a in sorted(comp):
            for b in sorted(succ[a] & cs):
                n_edges += 1
                key = 'recursion:%s->%s' % (a, b)
                fa = fx.F[a]
                if a == b and a == 'compile::compile_blk':
                    ctx.ob(rid, key, False, 'compile_blk calls itself once per statement of a block (index + 1), not per nesting level: stack depth grows with the number of statements', fa.where())
                    continue
                # descending: the callee receives a strict sub-tree of the caller's input
                kind = None
                for k in RECURSION_OK:
                    if a.split('::')[-1].startswith(k) or b.split('::')[-1].startswith(k) or ('{closure' in a and k in a) or ('{closure' in b and k in b):
                        kind = k
                        break
                if kind is None and ('Display' in a or 'Debug' in a or 'Display' in b):
                    kind = 'fmt'
                ctx.ob(rid, key, kind is not None, 'recursive edge %s -> %s: %s' % (a, b, RECURSION_OK.get(kind, 'not classified as descending a bracket level')), fa.where())
    ctx.floor(rid, 'recursive edges', n_edges, 6)


def r_allocation(ctx, config='default'):
    rid = 'R06.3'
    ctx.rule(rid, 'allocation: sizes passed to vec![x; n] / Vec::with_capacity / repeat().take in reachable functions derive from a finite table or are bounded by the input length; sizes taken from a parsed number are findings')
    fx = ctx.facts(config)
    ents, _ = panics.entries(fx, config)
    reach = fx.reachable(ents)
    n = 0
    OK = {
        'compile::for_while': 'size = 2*bit_width - 1 with bit_width <= 16 (guard R09.3)',
        'value::UIntValue::parse_binary': 'byte_len = ceil(bit_len / 8) <= 32 after from_bit_width succeeded',
        'array::Unfolder::<A>::unfold': 'n = number of elements of a value/pattern that already exists',
        '<value::Value as value::ValueConstructible>::array': 'collects existing elements',
    }
    for p in sorted(reach):
        fn = fx.F[p]
        if fn.macro:
            continue
        for bid, c, t in fn.calls():
            last = c.split('::')[-1]
            if c in ('std::vec::from_elem', 'std::vec::Vec::with_capacity') or last in ('repeat_n', 'resize', 'reserve', 'reserve_exact'):
                n += 1
                key = 'alloc:%s:%s' % (p, last)
                if p in ('<types::StructuralType as types::TypeConstructible>::array', '<types::StructuralType as types::TypeConstructible>::list'):
                    ctx.ob(rid, key, False, 'vec![element; n] with n = array size / list bound - 1 taken from the source text: memory proportional to a number written in the input (aborts on `[u8; 100000000000]` / `List<u8, 1099511627776>`)', fn.where(t['line']))
                else:
                    # with_capacity(x.len()) / reserve(x.len()): as much memory as a collection that already exists
                    by_len = False
                    if last in ('with_capacity', 'reserve', 'reserve_exact'):
                        for kind, pth, ret in explore(ctx, fn, max_visits=1):
                            if pth is None:
                                continue
                            evs = [e for e in event_calls(pth) if e[1] == c and e[3] == t['line']]
                            if evs:
                                by_len = all(is_call(strip(e[2][-1])) and strip(e[2][-1])[1].split('::')[-1] == 'len' for e in evs)
                                break
                    ctx.ob(rid, key, p in OK or by_len, 'allocation sized by %s' % (OK.get(p) or ('the length of an existing collection' if by_len else 'an unreviewed quantity')), fn.where(t['line']))
    ctx.floor(rid, 'sized allocation sites', n, 2)


def r_literal_classes(ctx):
    rid = 'R06.4'
    ctx.rule(rid, 'grammar literal classes vs converters: the digit strings handed to the literal converters contain only the characters the converter accepts, prefixes stripped are the grammar prefixes, and the empty digit string is rejected before conversion')
    from ..grammar import Grammar
    fx = ctx.facts()
    g = Grammar(fx.grammar)
    spec = {'dec_literal': ('', set('0123456789_')), 'bin_literal': ('0b', set('01_')), 'hex_literal': ('0x', set('0123456789abcdefABCDEF_'))}
    for rule, (prefix, cls) in spec.items():
        r = g.G.get(rule)
        ok = False
        if r is not None and r['ty'] == 'atomic':
            parts = g.flatten_seq(r['e'])
            if prefix:
                ok = len(parts) == 2 and parts[0]['k'] == 'str' and parts[0]['v'] == prefix and parts[1]['k'] == 'rep1' and g.charclass(parts[1]['e']) == cls
            else:
                ok = len(parts) == 1 and parts[0]['k'] == 'rep1' and g.charclass(parts[0]['e']) == cls
        ctx.ob(rid, 'grammar:' + rule, ok, '%s = "%s" ~ (%s)+ (atomic)' % (rule, prefix, ''.join(sorted(cls))), 'src/minimal.pest (%s)' % rule)
    # converters: strip exactly that prefix and remove `_`
    for ty, rule, prefix in (('Decimal', 'dec_literal', None), ('Binary', 'bin_literal', '"0b"'), ('Hexadecimal', 'hex_literal', '"0x"')):
        fn = ctx.anchor(fx, '<str::%s as parse::PestParse>::parse' % ty)
        ok = False
        detail = None
        for kind, p, ret in explore(ctx, fn):
            if kind != 'RET' or ret_kind(ret) != 'ok':
                continue
            c = calls_in(ret, 'from_str_unchecked')
            if not c:
                continue
            arg = c[0][2][0]
            detail = S(arg)
            rep = calls_in(arg, 'replace')
            sp = calls_in(arg, 'strip_prefix')
            ok = len(rep) == 1 and S(rep[0][2][1]) == "'_'" and S(rep[0][2][2]) == '""' and bool(calls_in(arg, 'as_str'))
            if prefix:
                ok = ok and len(sp) == 1 and S(sp[0][2][1]) == prefix
            else:
                ok = ok and not sp
        ctx.ob(rid, 'converter:' + ty, ok, '%s::parse = pair.as_str()%s.replace(\'_\', "")' % (ty, '.strip_prefix(%s)' % prefix if prefix else ''), fn.where(), detail)
    # emptiness: hex guard rejects the empty digit string (decimal: str::parse fails on ""; binary: Pow2Usize::new(0) is None)
    fn = ctx.anchor(fx, 'value::Value::parse_hexadecimal')
    ok = False
    for kind, p, ret in explore(ctx, fn):
        conds = [(S(w), l) for w, l in p.conds]
        if kind == 'RET' and err_variants(ret) == ['ExpressionUnexpectedType'] and any(w == 'is_empty(as_inner(hexadecimal))' and l != '0' for w, l in conds):
            ok = True
    ctx.ob(rid, 'hex:non-empty', ok, 'parse_hexadecimal rejects a literal without digits before converting', fn.where())
    pn = ctx.anchor(fx, 'num::Pow2Usize::new')
    rets = [(cond_str(p.conds), S(r)) for k, p, r in explore(ctx, pn) if k == 'RET']
    ok = any('is_power_of_two' in c and r == 'None{}' for c, r in rets) or any(r == 'None{}' for c, r in rets)
    ctx.ob(rid, 'bin:non-empty', ok, 'Pow2Usize::new returns None for a length that is not a power of two (0 digits included)', pn.where(), str(rets))


REQUIRED_GUARDS = [
    # (function, substrings of the canonical path condition, outcome prefix, panic sites that rely on it)
    ('<ast::SingleExpression as ast::AbstractSyntaxTree>::analyze', ['inner(from)=List', 'Lt(len(inner(from)@List.0), get(', '=F'], 'err:ExpressionUnexpectedType',
     'Partition::from_slice / Value::list / StructuralValue::list assert len < bound'),
    ('<ast::SingleExpression as ast::AbstractSyntaxTree>::analyze', ['inner(from)=Array', 'Eq(as_array(ty).1, len(inner(from)@Array.0))=F'], 'err:ExpressionUnexpectedType', 'array length invariant of typed values'),
    ('<ast::CallName as ast::AbstractSyntaxTree>::analyze', ['name(from)=Fold', 'Eq(2_usize, len(params(', '=F'], 'err:FunctionNotFoldable', 'params().first()/get(1).expect("foldable function"), params()[1]'),
    ('<ast::CallName as ast::AbstractSyntaxTree>::analyze', ['name(from)=ForWhile', 'Eq(3_usize, len(params(', '=F'], 'err:FunctionNotLoopable', 'params().first()/get(1)/get(2).unwrap() of a loop function'),
    ('value::Value::parse_hexadecimal', ['as_inner(ty)=UInt', 'Eq(0_usize, len(as_inner(hexadecimal)))=T'], 'err:ExpressionUnexpectedType', 'UIntValue::try_from(bytes).expect("valid length") for sub-byte widths'),
    ('value::Value::parse_hexadecimal', ['as_inner(ty)=UInt', 'Eq(0_usize, Rem(len(as_inner(hexadecimal)), 2_usize))=F'], 'err:ExpressionUnexpectedType', 'Vec::from_hex(s).expect("valid chars and valid length")'),
    ('value::Value::parse_hexadecimal', ['as_inner(ty)=UInt', 'checked_mul(byte_width(as_inner(ty)@UInt.0), 2_usize))=F'], 'err:ExpressionUnexpectedType', 'UIntValue::try_from(bytes).expect("valid length")'),
    ('value::Value::parse_hexadecimal', ['as_inner(ty)=Either|Option|Boolean|Tuple|List'], 'err:ExpressionUnexpectedType', 'unreachable!() in the second match on the type'),
    ('value::UIntValue::parse_binary', ['eq<UIntType>(from_bit_width(new(len(as_inner(binary)))), ty)=F'], 'err:ExpressionTypeMismatch', 'bytes[0], padded_bits.next().unwrap(), try_from(bytes).expect("Enough bytes")'),
    ('<parse::Match as parse::PestParse>::parse', ['.pattern=other'], 'err:IncompatibleMatchArms', 'unreachable!() in Match::scrutinee_type'),
    ('pattern::Pattern::is_of_type', ['=Tuple', 'Eq(len(', '=F'], 'err:ExpressionUnexpectedType', 'pattern/value layout agreement used by BasePattern::translate'),
]


def r_required_guards(ctx):
    rid = 'R06.5'
    ctx.rule(rid, 'guards the panic-site reasons rely on: the decision row that rejects the input before the panic-capable site is present with its exact predicate')
    from .. import guards
    fx = ctx.facts()
    cache = {}
    for path, subs, out, what in REQUIRED_GUARDS:
        fn = ctx.anchor(fx, path)
        if path not in cache:
            cache[path] = guards.decision_table(ctx, fn, plain=True)
        hit = [r for r in cache[path] if r['out'].startswith(out) and all(x in ' & '.join(r['conds']) for x in subs)]
        ctx.ob(rid, 'guard:%s:%s' % (path.split('::')[-2][-24:] + '::' + path.split('::')[-1], ' '.join(subs)[:70]), bool(hit), 'rejecting row [%s] ⇒ %s protects: %s' % (' & '.join(subs), out, what), fn.where())
    # `?`-guards: the type deconstruction that precedes each `.expect("value is type-checked")`
    fn = ctx.anchor(fx, '<ast::SingleExpression as ast::AbstractSyntaxTree>::analyze')
    rows = guards.decision_table(ctx, fn, plain=True)
    for form, dec in (('Either', 'as_either'), ('Option', 'as_option'), ('Tuple', 'as_tuple'), ('Array', 'as_array'), ('List', 'as_list'), ('Decimal', 'as_integer'), ('Binary', 'as_integer')):
        ok = [r for r in rows if r['out'].startswith('ok') and any(c.startswith('inner(from)=' + form) for c in r['conds'])]
        good = bool(ok) and all(any(('ok_or(%s(ty), ExpressionUnexpectedType{ty})' % dec) in c for c in r['checks']) for r in ok)
        ctx.ob(rid, 'deconstruct:' + form, good, '%s expressions are accepted only after `ty.%s().ok_or(ExpressionUnexpectedType)?` (typed-value invariant G4)' % (form, dec), fn.where())


GUARD_DOMINATES = [
    # (function, arm, guard that must have been tested (with outcome) before the site, argument text that identifies the sites)
    ('<ast::CallName as ast::AbstractSyntaxTree>::analyze', 'name(from)=Fold', 'Eq(2_usize, len(params(', 'params('),
    ('<ast::CallName as ast::AbstractSyntaxTree>::analyze', 'name(from)=ForWhile', 'Eq(3_usize, len(params(', 'params('),
]


def r_guard_dominance(ctx, rid='R06.8'):
    """The rejecting row exists (R06.5) and it is tested *before* the panic-capable access it protects, on every path."""
    from .. import guards
    ctx.rule(rid, 'guard before access: on every path of the arm, each indexing / unwrap / expect on the guarded collection happens after the length test with the accepting outcome')
    fx = ctx.facts()
    for path, arm, guard, argtxt in GUARD_DOMINATES:
        fn = ctx.anchor(fx, path)
        n, bad = 0, []
        for kind, p, ret in explore(ctx, fn):
            if p is None:
                continue
            cs = [guards.unq('%s=%s' % guards.canon_cond(w, l)) for w, l in p.conds]
            if arm not in cs:
                continue
            for e in p.events:
                if e[0] == 'assert' and 'BoundsCheck' in e[1] and argtxt in sv(e[2]):
                    last, what = 'index', sv(e[2])
                elif e[0] == 'call' and e[1].split('::')[-1] in ('index', 'unwrap', 'expect') and e[2] and argtxt in sv(e[2][0]):
                    last, what = e[1].split('::')[-1], sv(e[2][0])
                else:
                    continue
                n += 1
                before = cs[:e[5]]
                if not any(c.startswith(guard) and c.endswith('=T') for c in before):
                    bad.append('%s(%s) at line %s after [%s]' % (last, what[:60], e[3], ' & '.join(before)[:160]))
        ctx.ob(rid, 'dominates:%s:%s' % (path.split(' as ')[0].lstrip('<'), arm), n > 0 and not bad, 'arm %s: %d accesses to %s…) all follow the test %s…=T' % (arm, n, argtxt, guard), fn.where(), '; '.join(bad[:3]) if bad else ('no such access found' if n == 0 else None))


def check(ctx):
    from . import c04
    c04.group_rule(ctx, 'R06.6', r"^(num::(NonZero)?Pow2Usize::new|<error::Span as std::convert::From<&str>>::from|<error::Span as std::convert::From<&'a pest::iterators::Pair<'_, parse::Rule>>>::from|<error::RichError as std::convert::From<pest::error::Error<parse::Rule>>>::from|types::UIntType::(byte_width|bit_width|from_bit_width)|error::Span::to_slice|<value::UIntValue as std::convert::TryFrom<&\\[u8\\]>>::try_from)$", 'functions whose results are preconditions of panic-capable sites (positions >= 1, power-of-two bounds > 1, byte widths)', 6)
    from . import c11
    c04.group_rule(ctx, 'R06.9', c11.LIT.pattern, 'literal converters whose range / length checks keep the panicking constructors of the dependency out of reach', 8)
    r_required_guards(ctx)
    r_guard_dominance(ctx)
    from . import binding
    binding.r_tags(ctx, 'R06.7', arms_only=True)
    from . import c03
    c03.r_binders(ctx, 'R06.10')
    c04.group_rule(ctx, 'R06.11', r'^ast::Scope::\w+(::\{closure#\d+\})*$', 'scope mutators: the state discipline their assertions rely on (is_main set and reset, stack pushed before use)', 10)   # insert_variable's expect("Stack is empty") relies on a scope pushed before the binder is inserted   # Match::scrutinee_type's unreachable!() relies on the normalised arm order
    # preconditions cited by the discharges: scope stacks are pushed before they are used or popped; positions come from the checked constructors only
    from . import c10, c20, c09, c12, c07, c01, satisfy
    c10.r_pairing(ctx)
    c20.r_provenance(ctx)
    c09.r_call_site(ctx)            # admitted counter widths: index arithmetic of compile::for_while
    c12.r_parameters(ctx)           # get_argument's expect: parameter nodes recorded, arguments checked, arguments reach every scope
    c12.r_instantiate_gate(ctx, 'R12.2')
    c12.r_argument_scopes(ctx)
    satisfy.r_single_caller(ctx, 'R05.5m', 'ast::Scope::push_main_scope', {'<ast::Function as ast::AbstractSyntaxTree>::analyze'})
    c07.r_uint_tables(ctx, only={'parse', 'grammar', 'display'})      # UIntType::parse covers the literal set of the unsigned_type rule
    c01.schema_rules(ctx, only={'compile::<impl ast::Program>::compile': r''})
    r_shape_selftest(ctx)
    n = panic_rule(ctx, 'R06.1')
    ctx.floor('R06.1', 'panic-capable sites in reachable functions', n[0], 200)
    ctx.floor('R06.1', 'sites discharged by the grammar shape analysis', n[1], 50)
    r_recursion(ctx)
    r_allocation(ctx)
    r_literal_classes(ctx)
    panic_rule(ctx, 'R06.1s', what='the text and JSON entry points (serde configuration)', config='serde')
