"""C19 Same source, same bytes: in-process, across processes, via simc."""
import re
from ..core import sv, walk
from ..util import *
from .. import panics
from .layout import S

EXPLANATION = ('Decides on MIR: (R19.1) the complete inventory of iterations over std HashMap/HashSet in the crate, each with its reviewed sink '
               '(inserted into another map, only the choice of error is order-dependent, sorted before printing, serializer outside the compile '
               'path); a new iteration site in a function reachable from TemplateProgram::new/instantiate/commit is a violation; (R19.2) deny list '
               'of nondeterminism sources (time, random state, environment, threads, pointer formatting) over the same closure; (R19.3) the CLI: '
               'simc prints Base64Display of CompiledProgram::new(text, Arguments::default(), debug).commit().encode_to_vec() on the no-witness '
               'path, main exits with status 1 after printing the error exactly when run() returns Err, run has no other exit and no panic site '
               'on library results. Determinism inside dependencies and across processes as such is not decided.')
NOT_DECIDED = ['determinism inside simplicity-lang / pest', 'process-level behaviour (exit codes of the OS, stdout buffering)']
ASSUMPTIONS = ['std HashMap iteration order is the only seed-dependent order in the crate\'s own data structures']

COMPILE_ENTRIES = ['TemplateProgram::new', 'TemplateProgram::instantiate', 'CompiledProgram::new', 'CompiledProgram::commit', 'CompiledProgram::satisfy_with_env']
HASH_IT = re.compile(r'::(iter|keys|values|into_iter|drain|iter_mut|values_mut|into_keys|into_values|retain|extract_if)$')

# reviewed sinks: function -> (max number of sites, reason)
REVIEWED = {
    '<ast::Assignment as ast::AbstractSyntaxTree>::analyze': (1, 'typed variables of one pattern are inserted into the scope map; names are distinct (is_of_type), so insertion order is irrelevant'),
    '<ast::Function as ast::AbstractSyntaxTree>::analyze': (1, 'typed parameters of one function are inserted into the scope map; names are distinct (is_of_type), so insertion order is irrelevant'),
    'debug::CallTracker::with_file': (1, 'tracked calls are inserted into the DebugSymbols map keyed by their unique CMR'),
    'witness::WitnessValues::is_consistent': (2, 'all entries are checked; only which mismatch is reported first depends on the order'),
    'witness::Arguments::is_consistent': (1, 'all parameters are checked; only which error is reported first depends on the order'),
    '<witness::WitnessValues as std::fmt::Display>::fmt': (1, 'keys are sorted (sorted_unstable) before printing'),
    '<witness::Arguments as std::fmt::Display>::fmt': (1, 'keys are sorted (sorted_unstable) before printing'),
    'witness::WitnessTypes::iter': (1, 'public iterator wrapper; no internal caller on the compile path'),
    'witness::Parameters::iter': (1, 'public iterator wrapper; the only internal caller is Arguments::is_consistent'),
    'witness::WitnessValues::iter': (1, 'public iterator wrapper; no internal caller'),
    'witness::Arguments::iter': (1, 'public iterator wrapper; no internal caller'),
    "<serde::WitnessMapSerializer<'a> as serde::Serialize>::serialize": (1, 'JSON serializer (serde configuration); not on the compile path'),
}
DENY = re.compile(r'(std::time::|SystemTime|Instant::now|RandomState|BuildHasher|::hasher$|hash_one|DefaultHasher|std::env::(var|vars|args)|std::thread::|rand::|getrandom|std::process::id|fmt::Pointer|::as_ptr$|addr_of)')


def hash_sites(fx, crate='simfony'):
    out = []
    for p, f in fx.crates[crate].items():
        if f.macro:
            continue
        for bid, c, t in f.calls():
            inst = t['f'].get('inst', '')
            if HASH_IT.search(c) and re.search(r'(HashMap|HashSet|hash_map|hash_set)', c):
                out.append((p, c, t['line'], inst))
            elif c == '<I as std::iter::IntoIterator>::into_iter' and re.match(r'^<(std::collections::hash_(map|set)::|&?\'?\w* ?std::collections::Hash)', inst):
                out.append((p, c, t['line'], inst))
    return out


def guards_table():
    from .. import guards
    return guards.load_table()


def r_inventory(ctx, config='default'):
    rid = 'R19.1'
    ctx.rule(rid, 'every iteration over a HashMap/HashSet is a reviewed site whose sink does not feed the emitted program in iteration order')
    fx = ctx.facts(config)
    sites = hash_sites(fx)
    per = {}
    for p, c, line, inst in sites:
        per.setdefault(p, []).append((c, line))
    reach = fx.reachable([e for e in COMPILE_ENTRIES if e in fx.F])
    for p, lst in sorted(per.items()):
        fn = fx.F[p]
        ctx.saw(fn)
        rv = REVIEWED.get(p)
        on_path = p in reach
        ok = rv is not None and len(lst) <= rv[0]
        ctx.ob(rid, 'hash-iteration:%s' % p, ok, 'hash iteration in %s (%d site(s), %s compile path): %s' % (p, len(lst), 'on the' if on_path else 'off the', rv[1] if rv else 'NOT REVIEWED - order of a hash map may reach the output'), fn.where(lst[0][1]))
    ctx.floor(rid, 'hash iteration sites (%s)' % config, len(sites), 8)
    # sorted printing
    for name in ('WitnessValues', 'Arguments'):
        fn = ctx.anchor(fx, '<witness::%s as std::fmt::Display>::fmt' % name)
        ok = False
        for kind, p, ret in explore(ctx, fn, max_visits=1):
            for e in event_calls(p, 'into_iter'):
                from .. import guards as _g
                ok = ok or _g.sorted_key_order(e[2][0])
        ctx.ob(rid, 'sorted-print:' + name, ok, 'module printer iterates `keys().sorted_unstable()`', fn.where())


def r_deny(ctx, config='default'):
    rid = 'R19.2'
    ctx.rule(rid, 'no time / randomness / environment / thread / pointer-formatting source in functions reachable from the compile entry points')
    fx = ctx.facts(config)
    reach = fx.reachable([e for e in COMPILE_ENTRIES if e in fx.F])
    n = 0
    hits = []
    for p in sorted(reach):
        fn = fx.F[p]
        for bid, c, t in fn.calls():
            n += 1
            if DENY.search(c + ' ' + t['f'].get('inst', '')):
                hits.append((p, c, t['line']))
    for p, c, line in hits:
        ctx.ob(rid, 'nondeterminism:%s:%s' % (p, c), False, 'call of %s on the compile path' % c, fx.F[p].where(line))
    ctx.ob(rid, 'scanned', not hits, '%d call sites in %d reachable functions scanned, %d denied' % (n, len(reach), len(hits)))
    ctx.ob(rid, 'selftest', DENY.search('std::time::Instant::now') is not None and DENY.search('std::collections::hash_map::RandomState::new') is not None, 'deny list matches its positive examples')
    ctx.analysed['call_sites'] += n


def r_cli(ctx, config='default'):
    from .. import guards as guards_
    rid = 'R19.3'
    ctx.rule(rid, 'simc: prints base64 of CompiledProgram::new(text, Arguments::default(), debug).commit().encode_to_vec(); main: Err ⇒ eprintln + exit(1); no other exit, no unwrap of a library/IO/JSON result')
    fx = ctx.facts(config)
    run = fx.fn('run', 'simc')
    mainf = fx.fn('main', 'simc')
    ctx.saw(run)
    ctx.saw(mainf)
    # main
    exits = [(c, t) for bid, c, t in mainf.calls() if c.endswith('process::exit')]
    ok = len(exits) == 1 and exits[0][1]['args'][0].get('v', '').replace('const ', '').startswith('1_')
    res = Explorer_paths(ctx, mainf, 'simc')
    on_err = [p for kind, p, ret in res if kind == 'DIVERGE' and ret.endswith('process::exit')]
    ok = ok and len(on_err) == 1 and any(l == 'Err' for w, l in on_err[0].conds) and bool(event_calls(on_err[0], '_eprint'))
    okret = [p for kind, p, ret in res if kind == 'RET']
    ok = ok and all(not any(l == 'Err' for w, l in p.conds) for p in okret)
    ctx.ob(rid, 'main:exit', ok, 'main exits with status 1 after printing the error exactly when run() = Err', mainf.where())
    # run
    exits = [c for bid, c, t in deep_calls(fx, run) if c.endswith('process::exit') or c.endswith('process::abort')]
    ctx.ob(rid, 'run:no-exit', not exits, 'run() never exits the process itself', run.where())
    n_ok = 0
    for kind, p, ret in Explorer_paths(ctx, run, 'simc', follow_break=False):
        if kind != 'RET' or ret_kind(ret) != 'ok':
            continue
        wit = [l for w, l in p.conds if l in ('Some', 'None')]
        enc = event_calls(p, 'encode_to_vec')
        if not enc:
            continue
        src = enc[0][2][0]
        if calls_in(src, 'simfony::CompiledProgram::commit'):
            n_ok += 1
            new = calls_in(src, 'simfony::CompiledProgram::new')
            okp = len(new) == 1 and is_call(new[0][2][1], 'default') and 'Arguments' in (new[0][2][1][1] + new[0][2][1][3]) and bool(calls_in(new[0][2][2], 'get_flag')) and is_call(guards_.norm(new[0][2][0]), 'read_to_string')
            b64 = [e for e in event_calls(p, 'new') if 'Base64Display' in e[1]]
            okp = okp and len(b64) == 1 and guards_.norm(b64[0][2][0]) == guards_.norm(src if is_call(src, 'encode_to_vec') else ('call', enc[0][1], enc[0][2], '', None))[:3] + guards_.norm(b64[0][2][0])[3:]
            ctx.ob(rid, 'run:commit-path', bool(okp), 'no-witness path: Base64Display of exactly commit(CompiledProgram::new(the text read from the file, unmodified; Arguments::default(); --debug flag)).encode_to_vec()', run.where(enc[0][3]), S(src)[:300])
    ctx.floor(rid, 'commit printing path', n_ok, 1)
    # unwraps in run: only on clap's required argument
    uw = []
    for bid, c, t in deep_calls(fx, run):
        if panics.UNWRAPS.match(c):
            uw.append((c, t['line']))
    for cl in fx.find(r'^run::\{closure#\d+\}', 'simc'):
        for bid, c, t in cl.calls():
            if panics.UNWRAPS.match(c):
                uw.append((cl.path + ':' + c, t['line']))
    ctx.ob(rid, 'run:unwraps', len(uw) <= 1, 'run() unwraps only the required clap argument (found %s)' % uw, run.where())


def Explorer_paths(ctx, fn, crate, **kw):
    from ..core import Explorer
    ctx.saw(fn)
    return Explorer(fn, facts=ctx.facts(), **kw).run()


def r_clippy_crossref(ctx):
    """Thorough tier: an independent extractor (clippy::iter_over_hash_type, a lint the project never enabled) must not know a `for` loop over a hash type that the MIR inventory lacks."""
    import json, os, subprocess
    from .. import extract
    rid = 'R19.1x'
    ctx.rule(rid, 'cross-reference: every site reported by clippy::iter_over_hash_type is in the MIR inventory (independent extractor, not a verdict)')
    env = dict(os.environ)
    env.update({'CARGO_NET_OFFLINE': 'true', 'CARGO_TARGET_DIR': os.path.join(extract.BUILD, 'target-clippy')})
    p = subprocess.run(['cargo', '+nightly', 'clippy', '--offline', '--lib', '--message-format=json', '--', '-W', 'clippy::iter_over_hash_type'], cwd=extract.REPO, env=env, stdout=subprocess.PIPE, stderr=subprocess.PIPE, text=True)
    sites = []
    for l in p.stdout.splitlines():
        try:
            m = json.loads(l)
        except ValueError:
            continue
        if m.get('reason') == 'compiler-message' and 'iter_over_hash_type' in ((m['message'].get('code') or {}).get('code') or ''):
            sp = m['message']['spans'][0]
            sites.append((sp['file_name'], sp['line_start']))
    fx = ctx.facts()
    inv = {(fx.F[pth].file, line) for pth, c, line, inst in hash_sites(fx)}
    ctx.ob(rid, 'clippy-ran', p.returncode == 0, 'cargo +nightly clippy ran on /repo (%d hash-iteration loops reported)' % len(sites), None, p.stderr[-300:] if p.returncode else None)
    for f, line in sites:
        ctx.ob(rid, 'clippy-site:%s' % f, any(ff == f and abs(ll - line) <= 1 for ff, ll in inv), 'clippy site %s:%d is in the MIR inventory' % (f, line), '%s:%d' % (f, line))


def check(ctx):
    from . import c04
    c04.group_rule(ctx, 'R19.4', r'^debug::CallTracker::', 'marker id generation and tracking: full call traces (a marker depends only on the call counter)', 4)
    r_inventory(ctx)
    # the reviewed loops over hash collections are order-insensitive as written (every element is treated alike, nothing stops
    # early on a success): their bodies are compared with the reviewed rows
    fns = sorted({p for p, c0, l0, i0 in hash_sites(ctx.facts()) if p in guards_table()})
    c04.group_rule(ctx, 'R19.5', '^(' + '|'.join(re.escape(p) for p in fns) + ')$', 'functions that iterate a hash collection (the order of iteration must not matter)', 6)
    r_deny(ctx)
    r_cli(ctx)
    # the witness-file path of simc exists only with the serde feature
    r_cli(ctx, 'serde')
    c04.group_rule(ctx, 'R19.6', r'^(<?serde::.*|witness::(Arguments|WitnessValues)::as_inner)$', 'JSON reading of the witness file (serde feature)', 12, config='serde')
    if ctx.tier == 'thorough':
        r_clippy_crossref(ctx)
        r_inventory(ctx, 'serde')
        r_deny(ctx, 'serde')
