"""C10 A variable denotes its nearest, most recent binding."""
import re
from ..core import sv, walk, Explorer
from ..util import *
from .layout import S, strip
from . import binding, layout, c01

EXPLANATION = ('Decides the compositional scope discipline on MIR for both scope implementations (typing scope in ast.rs, environment scope in '
               'compile.rs): (R10.1) push/pop pairing with depth restored on every success path of every function that touches the scope stack; '
               '(R10.2) ordering: right-hand side analysed/compiled before the pattern is inserted, insertion before the rest of the block, match '
               'scrutinee under the outer scope and each arm under push; insert(own binder); pop; (R10.3) a function body sees only its parameters '
               '(Scope::child starts from the parameter pattern alone; Function::analyze requires the topmost scope); (R10.4) lookup agreement: '
               'typing looks scopes up innermost-first and keeps the latest insert per scope, code generation folds patterns newest-first and takes '
               'the first pre-order occurrence; (R10.5) patterns and values share one balanced split. The invariant is per construct, so it '
               'covers every arrangement of blocks, patterns, arms and calls. End-to-end value identity needs the trusted combinator semantics.')
NOT_DECIDED = ['run-time value identity (needs C01\'s trusted base)', 'that HashMap::insert replaces (std)']
ASSUMPTIONS = ['std HashMap::insert keeps the latest value for a key; Vec push/pop are LIFO']

SCOPE_CALLS = {'push_scope': 1, 'push_main_scope': 1, 'pop_scope': -1, 'pop_main_scope': -1}


def r_pairing(ctx):
    rid = 'R10.1'
    ctx.rule(rid, 'push/pop pairing: on every returning success path of every function using a scope stack the depth returns to its entry value and never goes below it')
    fx = ctx.facts()
    n_push = {'ast': 0, 'compile': 0}
    n_pop = {'ast': 0, 'compile': 0}
    for path, fn in sorted(fx.F.items()):
        if fn.macro:
            continue
        sites = [(c, t) for bid, c, t in fn.calls() if c.split('::')[-1] in SCOPE_CALLS and (c.startswith('ast::Scope::') or c.startswith('compile::Scope::'))]
        if not sites or path in ('ast::Scope::push_main_scope', 'ast::Scope::pop_main_scope'):
            continue
        for c, t in sites:
            mod = c.split('::')[0]
            if SCOPE_CALLS[c.split('::')[-1]] > 0:
                n_push[mod] += 1
            else:
                n_pop[mod] += 1
        res = explore(ctx, fn, max_visits=2)
        bad = None
        npaths = 0
        for kind, p, ret in res:
            if p is None:
                bad = 'path explosion'
                break
            depth = 0
            for e in event_calls(p):
                last = e[1].split('::')[-1]
                if last in SCOPE_CALLS and (e[1].startswith('ast::Scope::') or e[1].startswith('compile::Scope::')):
                    depth += SCOPE_CALLS[last]
                    if depth < 0:
                        bad = 'pop before push on path [%s]' % cond_str(p.conds)[:200]
            if kind == 'RET':
                is_err = ret_kind(ret) in ('err', 'residual') or (isinstance(ret, tuple) and ret[0] == 'call' and ret[1].endswith('with_span') and ret_kind(ret[2][0]) == 'err')
                npaths += 1
                if depth != 0 and not is_err:
                    bad = 'depth %+d at return on path [%s]' % (depth, cond_str(p.conds)[:200])
        ctx.ob(rid, 'paired:' + path, bad is None, 'scope depth restored on all %d returning paths' % npaths, fn.where(), bad)
    ctx.floor(rid, 'push sites in ast.rs', n_push['ast'], 3)
    ctx.floor(rid, 'pop sites in ast.rs', n_pop['ast'], 3)
    ctx.floor(rid, 'push sites in compile.rs', n_push['compile'], 2)
    ctx.floor(rid, 'pop sites in compile.rs', n_pop['compile'], 2)
    # compile: the block pop is unconditional (no `?` between push and pop)
    fn = ctx.anchor(fx, 'compile::<impl ast::Expression>::compile')
    ok = True
    for kind, p, ret in explore(ctx, fn, follow_break=True):
        names = [e[1].split('::')[-1] for e in event_calls(p) if e[1].startswith('compile::Scope::')]
        if 'push_scope' in names and names.count('push_scope') != names.count('pop_scope'):
            ok = False
    ctx.ob(rid, 'block-pop-unconditional', ok, 'Expression::compile pops the block scope on the error path as well', fn.where())


def trace(p, keep):
    out = []
    for e in event_calls(p):
        last = e[1].split('::')[-1]
        if keep(e[1], last):
            out.append((last, e))
    return out


def r_order_ast(ctx):
    rid = 'R10.2'
    ctx.rule(rid, 'ordering in the typing pass: let: analyse rhs, then is_of_type, then insert its variables; block: push, statements in order, tail, pop; match: scrutinee outside, each arm under push; insert(own binder); analyse; pop')
    fx = ctx.facts()
    keep = lambda c, last: c.startswith('ast::Scope::') or last in ('analyze', 'is_of_type', 'collect')
    # let
    fn = ctx.anchor(fx, '<ast::Assignment as ast::AbstractSyntaxTree>::analyze')
    n = 0
    for kind, p, ret in explore(ctx, fn, max_visits=2):
        if kind not in ('RET', 'LOOP'):
            continue
        tr = [x for x in trace(p, keep) if x[0] in ('analyze', 'is_of_type', 'insert_variable')]
        names = [x[0] for x in tr]
        if 'analyze' not in names:
            continue
        n += 1
        ok = names[:2] == ['analyze', 'is_of_type'] and all(x == 'insert_variable' for x in names[2:])
        if ok:
            an, it = tr[0][1], tr[1][1]
            ok = S(an[2][0]) == 'expression(from)' and S(it[2][0]) == 'pattern(from)' and an[2][1] == it[2][1] and 'resolve(scope, ty(from))' in S(an[2][1])
            for x in tr[2:]:
                ok = ok and all(calls_in(a, 'is_of_type') for a in x[1][2][1:])
        ctx.ob(rid, 'let:order:%d' % len(names), ok, 'let p: T = e: e analysed at T before p is checked against T and its variables inserted (from is_of_type only)', fn.where(), str(names))
    ctx.floor(rid, 'let paths', n, 2)
    # block
    fn = ctx.anchor(fx, '<ast::Expression as ast::AbstractSyntaxTree>::analyze')
    n = 0
    for kind, p, ret in explore(ctx, fn):
        if kind != 'RET' or not any(l == 'Block' for w, l in p.conds) or ret_kind(ret) != 'ok':
            continue
        n += 1
        tr = trace(p, keep)
        names = [x[0] for x in tr]
        has_tail = any(l == 'Some' for w, l in p.conds)
        exp = ['push_scope', 'collect'] + (['analyze'] if has_tail else []) + ['pop_scope']
        ok = names == exp
        if ok:
            coll = tr[1][1]
            m = coll[2][0]
            ok = is_call(m, 'map') and S(m[2][0]) == 'iter(inner(from)@Block.0)'
            cl = m[2][1]
            if ok and cl[0] == 'agg' and cl[1].startswith('closure:'):
                cf = fx.F.get(cl[1][8:])
                rr = [strip(x[2]) for x in Explorer(cf, facts=fx).run() if x[0] == 'RET'] if cf else []
                ok = len(rr) == 1 and is_call(rr[0], '<ast::Statement as ast::AbstractSyntaxTree>::analyze') and rr[0][2][0][0] == 'param' and rr[0][2][0][1] == 1
            else:
                ok = False
        ctx.ob(rid, 'block:order:%s' % ('tail' if has_tail else 'no-tail'), ok, 'block: push; statements analysed in source order; tail; pop', fn.where(), str(names))
    ctx.floor(rid, 'block paths', n, 2)
    # match
    fn = ctx.anchor(fx, '<ast::Match as ast::AbstractSyntaxTree>::analyze')
    n = 0
    for kind, p, ret in explore(ctx, fn):
        if kind != 'RET' or ret_kind(ret) != 'ok':
            continue
        n += 1
        tr = [x for x in trace(p, keep) if x[0] in ('analyze', 'push_scope', 'pop_scope', 'insert_variable')]
        names = [x[0] for x in tr]
        lab = dict((S(w), l) for w, l in p.conds)
        L = lab.get('as_typed_variable(pattern(left(from)))')
        Rr = lab.get('as_typed_variable(pattern(right(from)))')
        exp = ['analyze', 'push_scope'] + (['insert_variable'] if L == 'Some' else []) + ['analyze', 'pop_scope', 'push_scope'] + (['insert_variable'] if Rr == 'Some' else []) + ['analyze', 'pop_scope']
        ok = names == exp
        if ok:
            ans = [x[1] for x in tr if x[0] == 'analyze']
            ok = S(ans[0][2][0]) == 'scrutinee(from)' and S(ans[1][2][0]) == 'expression(left(from))' and S(ans[2][2][0]) == 'expression(right(from))'
            ins = [x[1] for x in tr if x[0] == 'insert_variable']
            sides = (['left'] if L == 'Some' else []) + (['right'] if Rr == 'Some' else [])
            for side, e in zip(sides, ins):
                ok = ok and S(e[2][1]) == 'as_typed_variable(pattern(%s(from)))@Some.0.0' % side and 'as_typed_variable(pattern(%s(from)))@Some.0.1' % side in S(e[2][2])
        ctx.ob(rid, 'match:order:%s,%s' % (L, Rr), ok, 'match: scrutinee under the outer scope; each arm under push; insert(own binder at its declared type); analyse; pop', fn.where(), str(names))
    ctx.floor(rid, 'match paths', n, 4)
    # variable use re-inserts only the found name at the found type
    fn = ctx.anchor(fx, '<ast::SingleExpression as ast::AbstractSyntaxTree>::analyze')
    n = 0
    for kind, p, ret in explore(ctx, fn):
        if kind != 'RET' or not p.conds or p.conds[0][1] != 'Variable' or ret_kind(ret) != 'ok':
            continue
        n += 1
        gv = event_calls(p, 'ast::Scope::get_variable')
        iv = event_calls(p, 'ast::Scope::insert_variable')
        ok = len(gv) == 1 and len(iv) <= 1 and S(gv[0][2][1]) == 'inner(from)@Variable.0'
        if iv:
            ok = ok and S(iv[0][2][1]) == 'inner(from)@Variable.0' and S(iv[0][2][2]) == 'ty'
            ne = [(w, l) for w, l in p.conds if is_call(w) and re.search(r'::(ne|eq)$', w[1])]
            ok = ok and len(ne) == 1
        ctx.ob(rid, 'variable:use', ok, 'a variable use looks the name up (innermost first); the only re-insertion is the same name at the type just proven equal', fn.where())
    ctx.floor(rid, 'variable arm', n, 1)


def r_function_scope(ctx):
    rid = 'R10.3'
    ctx.rule(rid, 'a function body sees only its parameters: Scope::child starts from the parameter pattern alone; Function::analyze requires the topmost scope and pushes exactly one scope holding the parameters')
    fx = ctx.facts()
    ch = ctx.anchor(fx, 'compile::Scope::child')
    rets = [r for k, p, r in explore(ctx, ch) if k == 'RET']
    ok = len(rets) == 1 and rets[0][0] == 'agg' and S(rets[0][2][0]) == 'vec{vec{input}}'
    ctx.ob(rid, 'child:variables', ok, 'Scope::child: variables = [[input pattern]] (no data flow from self.variables)', ch.where(), S(rets[0]) if rets else None)
    ctx.ob(rid, 'child:no-outer', ok and not any(x[0] == 'field' and x[2] == 'variables' for x in walk(rets[0])), 'the child scope does not read the parent\'s variables', ch.where())
    nw = ctx.anchor(fx, 'compile::Scope::new')
    rets = [r for k, p, r in explore(ctx, nw) if k == 'RET']
    ctx.ob(rid, 'new:variables', len(rets) == 1 and S(rets[0][2][0]) == 'vec{vec{Ignore{}}}', 'the main scope starts as [[_]] (unit environment)', nw.where(), S(rets[0]) if rets else None)
    fa = ctx.anchor(fx, '<ast::Function as ast::AbstractSyntaxTree>::analyze')
    n = 0
    for kind, p, ret in explore(ctx, fa, max_visits=2):
        if kind != 'RET' or ret_kind(ret) != 'ok':
            continue
        lits = [x for x in walk(ret) if x[0] == 'agg' and x[1].startswith('adt:ast::Function::')]
        if not lits or not lits[0][1].endswith('Custom'):
            continue
        n += 1
        names = [e[1].split('::')[-1] for e in event_calls(p) if e[1].startswith('ast::Scope::') or e[1].endswith('Expression as ast::AbstractSyntaxTree>::analyze')]
        core_names = [x for x in names if x in ('is_topmost', 'push_scope', 'insert_variable', 'analyze', 'pop_scope', 'insert_function')]
        k = core_names.count('insert_variable')
        exp = ['is_topmost', 'push_scope'] + ['insert_variable'] * k + ['analyze', 'pop_scope', 'is_topmost', 'insert_function']
        top = [l for w, l in p.conds if S(w) == 'is_topmost(scope)']
        ctx.ob(rid, 'function:order:%d' % k, core_names == exp and top and top[0] != '0', 'custom function: topmost scope asserted; push; insert parameters; analyse body; pop; then register the function (no recursion, body cannot see itself)', fa.where(), str(core_names))
    ctx.floor(rid, 'custom function paths', n, 2)
    # params pattern = tuple of the parameter identifiers in order
    pp = ctx.anchor(fx, 'ast::CustomFunction::params_pattern')
    rets = [S(r) for k, p, r in explore(ctx, pp) if k == 'RET']
    ctx.ob(rid, 'params-pattern', rets == ['tuple(map(cloned(map(iter(params(self)), identifier)), Identifier))'], 'params_pattern = Pattern::tuple(parameter identifiers in declaration order)', pp.where(), str(rets))


def r_lookup_ast(ctx):
    rid = 'R10.4'
    ctx.rule(rid, 'typing-side lookup: get_variable searches scopes innermost-first; insert_variable writes the innermost scope; push/pop are LIFO on the same stack (both scope types)')
    fx = ctx.facts()
    gv = ctx.anchor(fx, 'ast::Scope::get_variable')
    # written as variables.iter().rev().find_map(|s| s.get(id)) or as the loop it stands for: the same three rows
    from .. import guards as G
    idn = gv.names.get(2, 'identifier')
    IT = 'next(into_iter(rev(iter(self.variables))))'
    GET = 'get(%s, %s)' % (IT, idn)
    want = sorted([((IT + '=None',), 'val:None', 'None{}'), ((IT + '=Some', GET + '=Some'), 'val:Some', 'Some{%s}' % GET), ((IT + '=Some', GET + '=None'), 'loop', '')])
    got = sorted((tuple(sorted(set(r['conds']))), r['out'], r['value']) for r in G.decision_table(ctx, gv, plain=True, table=True))
    want = sorted((tuple(sorted(c)), o, v) for c, o, v in want)
    ctx.ob(rid, 'get_variable', got == want, 'get_variable: scopes are visited from the last pushed to the first (variables.iter().rev()), each queried with map.get(identifier), the first hit is returned', gv.where(), str(got)[:600])
    table = {
        'ast::Scope::insert_variable': ('insert', 'expect(last_mut(self.variables), "Stack is empty")', ['identifier', 'ty']),
        'ast::Scope::push_scope': ('push', 'self.variables', None),
        'ast::Scope::pop_scope': ('pop', 'self.variables', None),
        'compile::Scope::insert': ('push', 'expect(last_mut(self.variables), "Empty stack")', ['pattern']),
        'compile::Scope::push_scope': ('push', 'self.variables', None),
        'compile::Scope::pop_scope': ('pop', 'self.variables', None),
    }
    for path, (op, recv, args) in table.items():
        fn = ctx.anchor(fx, path)
        ok = False
        detail = None
        for k, p, r in explore(ctx, fn):
            if k != 'RET':
                continue
            ev = [e for e in event_calls(p) if e[1].split('::')[-1] in ('push', 'pop', 'insert') and ('Vec' in e[1] or 'HashMap' in e[1])]
            detail = [S(e) for e in ev]
            ok = len(ev) == 1 and ev[0][1].split('::')[-1] == op and S(ev[0][2][0]) == recv and (args is None or [S(a) for a in ev[0][2][1:]] == args)
        ctx.ob(rid, 'stack-op:' + path, ok, '%s = %s on %s' % (path.split('::', 1)[1], op, recv), fn.where(), str(detail))


def check(ctx):
    from . import c04
    c04.group_rule(ctx, 'R10.10', r"^(<&pattern::(Base)?Pattern as miniscript::iter::TreeLike>::as_node|parse::MatchPattern::as_\w+|pattern::BasePattern::(as_identifier|is_ignore))$", 'children of patterns in order; binder of a match pattern', 5)
    c04.group_rule(ctx, 'R10.9', r'^<(pattern::Pattern|parse::(Assignment|Function|FunctionParam|Match|MatchArm|MatchPattern)|str::(Identifier|FunctionName)) as parse::PestParse>::parse(::\{closure#\d+\})*$', 'construction of binders from the parse (patterns, let, parameters, match arms)', 7)
    r_pairing(ctx)
    r_order_ast(ctx)
    c01.schema_rules(ctx, only={'compile::compile_blk': None, 'compile::<impl ast::Expression>::compile': None, 'compile::<impl ast::Match>::compile': None, 'compile::<impl ast::Call>::compile': r'=(Custom|Fold|ForWhile)\b'})
    r_function_scope(ctx)
    r_lookup_ast(ctx)
    binding.r_lookup(ctx, 'R10.5')
    binding.r_selectors(ctx, 'R10.6')
    binding.r_base_pattern(ctx, 'R10.7')
    layout.r_btree(ctx, 'R10.8')
