"""C04 Front end accepts exactly the well-typed programs."""
import re
from ..util import *
from .. import guards
from .layout import S

EXPLANATION = ('Decides presence and exact predicate of every static check of the front end: for each of the analysis functions (ast.rs analyze impls '
               'and Scope methods, Pattern::is_of_type, literal parsers, alias resolution, module analysis, Match::parse arm compatibility) the complete '
               'decision table is reconstructed from MIR by path exploration - canonical path conditions (comparison operands ordered, polarity '
               'folded, nominal vs structural comparison visible in the callee type), the ordered list of `?`-checked operations passed, and the '
               'outcome (constructed AST node, Err variant, panic, loop) - and must equal the reviewed table tables/guards.json (argued in '
               'tables/guards.md against the clauses of C04). Deleting a check removes rows, weakening a comparison or reordering a check '
               'changes a row, an early Ok adds one. Completeness of the rule set against an independent type system is not decided.')
NOT_DECIDED = ['completeness of the checks with respect to an independent checker written from the book', 'grammar acceptance beyond the keyword rules of C17']
ASSUMPTIONS = ['the reviewed table was frozen from a tree whose checks were read against the book (tables/guards.md)']

EXCLUDE = re.compile(r'^(<value::StructuralValue as .*|<value::Destructor.*|value::destruct::.*|array::(Partition|Combiner|Unfolder).*|<array::Partition.*|<&?value::(Structural)?Value as miniscript::iter::TreeLike>::as_node|<value::StructuralValue as miniscript.*|witness::WitnessValues::is_consistent|debug::.*|<.* as std::fmt::Display>::fmt.*|types::TypeInner::<A>::display|error::Span::to_slice|<.* as parse::ParseFromStr>::parse_from_str.*|witness::<impl parse::ParseFromStr for types::ResolvedType>::parse_from_str|value::Value::parse_from_str|TemplateProgram::(new|instantiate)|CompiledProgram::new)$')


def table_rule(ctx, rid, select, what, fields=guards.ALL_FIELDS, config=None):
    ctx.rule(rid, 'decision tables (conditions, passed `?` checks, outcome) of %s equal the reviewed table' % what)
    fx = ctx.facts(config) if config else ctx.facts()
    table = guards.load_table(config)
    cur = set(guards.guard_functions(fx)) if not config else set()
    paths = sorted(p for p in (set(table) | cur) if select(p))
    n = guards.compare(ctx, rid, paths, table, what, fields, config=config)
    return n, len(paths)


def group_rule(ctx, rid, regex, what, floor, config=None):
    r = re.compile(regex)
    n, f = table_rule(ctx, rid, lambda p: bool(r.match(p)), what, config=config)
    ctx.floor(rid, 'functions in table group (%s)' % what, f, floor)
    return n


def r_reviewed_grammar(ctx, rid, roots=None, mention=None):
    """The grammar equals the reviewed grammar up to what cannot change a parse tree: silent helper rules, and the order of
    alternatives whose first characters are pairwise disjoint.  `roots`: compare only the rules reachable from these."""
    import json, os
    from ..grammar import Grammar
    ctx.rule(rid, 'reviewed grammar: every rule%s has the reviewed canonical form (silent rules inlined, order-irrelevant alternatives sorted); a changed, new or missing rule is an unreviewed change of the accepted language or of the parse tree' % ('' if roots is None else ' reachable from ' + '/'.join(sorted(roots))))
    g = Grammar(ctx.facts().grammar)
    cur = g.canonical()
    frozen = json.load(open(os.path.join(os.path.dirname(os.path.dirname(os.path.dirname(os.path.abspath(__file__)))), 'tables', 'grammar.json')))['rules']

    def closure(canon, roots):
        import re
        seen, todo = set(), list(roots)
        while todo:
            n = todo.pop()
            if n in seen or n not in canon:
                continue
            seen.add(n)
            todo += [w for w in re.findall(r'[A-Za-z_][A-Za-z0-9_]*', re.sub(r'"(\\.|[^"\\])*"', '', canon[n].split(': ', 1)[1])) if w in canon]
        return seen
    names = set(cur) | set(frozen)
    if roots is not None:
        names = closure(cur, roots) | closure(frozen, roots)
    if mention is not None:
        # the rules named in `mention` and every rule that refers to one of them directly
        import re as _re
        pat = _re.compile(r'\b(%s)\b' % '|'.join(sorted(mention)))
        names = {n for n in names if n in mention or pat.search(_re.sub(r'"(\\.|[^"\\])*"', '', (cur.get(n) or '') + ' ' + (frozen.get(n) or '')))}
    n = 0
    for name in sorted(names):
        n += 1
        a, b = cur.get(name), frozen.get(name)
        ctx.ob(rid, 'grammar-rule:' + name, a == b, 'rule %s = reviewed form' % name, 'src/minimal.pest (%s)' % name,
               None if a == b else ('rule added: %s' % a if b is None else 'rule removed (reviewed: %s)' % b if a is None else 'now      %s\n     reviewed %s' % (a[:400], b[:400])))
    ctx.floor(rid, 'grammar rules compared', n, 83 if roots is None and mention is None else 3)
    return n


def r_grammar_words(ctx, rid, order=True):
    ctx.rule(rid, 'reserved words are recognisable: inside a guarded keyword choice no earlier literal is a proper prefix of a later one (PEG ordered choice would commit to the shorter word and fail on the guard); an identifier alternative tried before a keyword alternative excludes that keyword by look-ahead')
    from ..grammar import Grammar
    g = Grammar(ctx.facts().grammar)
    n, bad = g.prefix_shadowing()
    sh = [x for x in bad if x[3]]
    ctx.ob(rid, 'prefix-shadowing', not sh, '%d guarded keyword choices checked; shadowed words: %s' % (n, [(x[0], x[1], x[2]) for x in sh]), 'src/minimal.pest')
    ctx.floor(rid, 'guarded keyword choices', n, 3)
    # identifier alternative tried before a keyword alternative: the identifier role must exclude the keyword
    pos, fnd = g.keyword_order()
    badk = {}
    for rule, prev, role, alt, w in fnd:
        badk.setdefault((rule, prev, alt), []).append(w)
    for rule, prev, role, alt, nk in (pos if order else []):
        ws = badk.get((rule, prev, alt))
        ctx.ob(rid, 'order:%s:%s<%s' % (rule, prev, alt), not ws, 'in rule %s the alternative %s (identifier role %s) is tried before %s: its %d leading word(s) are excluded from the role by a negative look-ahead' % (rule, prev, role, alt, nk),
               'src/minimal.pest (%s)' % rule, 'not excluded: %s — `%s …` is taken by %s whenever its continuation matches (e.g. a parenthesised operand)' % (ws, (ws or ['?'])[0], prev) if ws else None)
    if order:
        ctx.floor(rid, 'identifier-before-keyword alternative pairs', len(pos), 4)
    # constructor words (`Left`, `Some`, ..) in front of an identifier alternative that continues with the same token
    fpos, ffnd = g.fused_capture()
    badf = {}
    for rule, lit, alt, role, w in ffnd:
        badf.setdefault((rule, lit, alt), []).append(w)
    for rule, lit, alt, role in (fpos if order else []):
        ws = badf.get((rule, lit, alt))
        ctx.ob(rid, 'word-first:%s:%s<%s' % (rule, lit, alt), not ws, 'in rule %s the alternative beginning with `%s` is tried before %s (identifier role %s) and both continue with the same token: the word is excluded from the role' % (rule, lit, alt, role),
               'src/minimal.pest (%s)' % rule, 'not excluded: %s — a %s of that name can be defined but `%s(..)` never reaches it' % (ws, role, (ws or ['?'])[0]) if ws else None)
    if order:
        ctx.floor(rid, 'word-before-identifier alternative pairs', len(fpos), 3)
    ST = [{'name': 'id', 'ty': 'atomic', 'e': {'k': 'seq', 'a': {'k': 'ident', 'v': 'ASCII_ALPHA'}, 'b': {'k': 'rep', 'e': {'k': 'choice', 'a': {'k': 'ident', 'v': 'ASCII_ALPHANUMERIC'}, 'b': {'k': 'str', 'v': '_'}}}}},
          {'name': 'call', 'ty': 'normal', 'e': {'k': 'seq', 'a': {'k': 'ident', 'v': 'id'}, 'b': {'k': 'str', 'v': '('}}},
          {'name': 'm', 'ty': 'normal', 'e': {'k': 'seq', 'a': {'k': 'str', 'v': 'match'}, 'b': {'k': 'ident', 'v': 'e'}}},
          {'name': 'e', 'ty': 'normal', 'e': {'k': 'choice', 'a': {'k': 'ident', 'v': 'call'}, 'b': {'k': 'ident', 'v': 'm'}}}]
    ctx.ob(rid, 'selftest-order', [f[4] for f in Grammar(ST).keyword_order()[1]] == ['match'], 'the rule reports `e = call | m` with call = id ~ "(" and m = "match" ~ e')
    ctx.ob(rid, 'selftest', bool(Grammar([{'name': 'k', 'ty': 'atomic', 'e': {'k': 'seq', 'a': {'k': 'choice', 'a': {'k': 'str', 'v': 'Ge'}, 'b': {'k': 'str', 'v': 'Gej'}}, 'b': {'k': 'neg', 'e': {'k': 'ident', 'v': 'ASCII_ALPHANUMERIC'}}}}]).prefix_shadowing()[1]), 'the rule reports `("Ge" | "Gej") ~ !ALNUM`')


PARSERS = r'^<.* as parse::PestParse>::parse(::\{closure#\d+\})*$'
HELP = re.compile(r'^(types::UIntType::(from_bit_width|bit_width|byte_width)|num::(NonZero)?Pow2Usize::new|value::UIntValue::(u1|u2|u4)|ast::Scope::\w+(::\{closure#\d+\})?|types::AliasedType::(resolve|resolve_builtin)(::\{closure#\d+\})?|types::BuiltinAlias::resolve|value::Value::is_of_type)$')


def check(ctx):
    n, f = table_rule(ctx, 'R04.1', lambda p: not EXCLUDE.match(p), 'the front end', guards.GUARD_FIELDS)
    table_rule(ctx, 'R04.1h', lambda p: bool(HELP.match(p)), 'predicate helpers of the front end (returned values compared as well)')
    r_grammar_words(ctx, 'R04.4')
    r_reviewed_grammar(ctx, 'R04.6')
    from . import c13
    c13.r_signatures(ctx, 'R04.8')   # a jet call is well-typed against the jet's signature
    group_rule(ctx, 'R04.7', PARSERS, 'parse-tree construction (every PestParse::parse): which child becomes which field, in which order', 30)
    ctx.floor('R04.1', 'front-end functions with a decision table', f, 40)
    ctx.floor('R04.1', 'decision rows', n, 200)
    from . import c03
    c03.r_binders(ctx, 'R04.3')
    r_zip(ctx, 'R04.2')


def _coll(v):
    """Underlying collection of an iterator expression (strip iter/into_iter/map/cloned adapters)."""
    from ..core import walk
    while is_call(v) and v[1].split('::')[-1] in ('iter', 'into_iter', 'map', 'cloned', 'copied', 'iter_mut') and v[2]:
        v = v[2][0]
    return v


ZIP_REVIEWED = {
    "<value::Destructor<'_> as miniscript::iter::TreeLike>::as_node": 'elements come from destruct::as_tuple(value, tys.len()) / as_array / as_list, which return exactly the requested number of elements (Unfolder), or are zipped with repeat()',
}


def r_zip(ctx, rid):
    ctx.rule(rid, 'no silent truncation: every Iterator::zip of two finite sequences in the front end is preceded on its path by an equality test of their lengths (in the function, or in every caller for zipped parameters), or one side is repeat()')
    fx = ctx.facts()
    n = 0
    for path, fn in sorted(fx.F.items()):
        if fn.macro:
            continue
        if not any(c.endswith('::zip') for bid, c, t in fn.calls()):
            continue
        if path in ZIP_REVIEWED:
            n += 1
            ctx.ob(rid, 'zip:reviewed:' + path, True, 'zip in %s: %s' % (path, ZIP_REVIEWED[path]), fn.where())
            continue
        seen = {}
        for kind, p, ret in explore(ctx, fn, max_visits=1):
            if p is None:
                continue
            for e in event_calls(p, 'zip'):
                a, b = _coll(e[2][0]), _coll(e[2][1])
                sa_, sb_ = S(a), S(b)
                na_, nb_ = guards.unq(guards.N(a)), guards.unq(guards.N(b))   # as rendered inside decision conditions
                key = 'zip:%s:%s~%s' % (path, sa_[:60], sb_[:60])
                ok = False
                why = ''
                if is_call(b, 'repeat') or is_call(a, 'repeat'):
                    ok, why = True, 'one side is repeat()'
                else:
                    for w, l in p.conds[:e[5]]:
                        c, truth = guards.canon_cond(w, l)
                        c = guards.unq(c)
                        if truth == 'T' and c.startswith('Eq(') and ('len(%s)' % na_ in c) and ('len(%s)' % nb_ in c or nb_ in c):
                            ok, why = True, 'guarded by ' + c
                    if not ok and a[0] == 'param' and b[0] == 'param':
                        # every caller must have passed `check(len == len)?` on the same two arguments
                        callers = fx.callers_of(path)
                        okc = bool(callers)
                        for cf, bid, cc, t in callers:
                            good = False
                            for k2, p2, r2 in explore(ctx, cf, max_visits=1):
                                for e2 in event_calls(p2, path):
                                    x, y = e2[2][a[1]], e2[2][b[1]]
                                    chk = [t0 for t0 in p2.events if t0[0] == 'try' and calls_in(t0[1], 'check_argument_types') and p2.events.index(t0) < p2.events.index(e2)]
                                    if any(calls_in(t0[1], 'check_argument_types')[0][2][:2] == (x, y) for t0 in chk):
                                        good = True
                                    else:
                                        good = False
                                        break
                                else:
                                    continue
                                if not good:
                                    break
                            okc = okc and good
                        if okc:
                            ok, why = True, 'every caller checks the two lengths with check_argument_types(same arguments)? first'
                            lt = ctx.facts().fn('<ast::Call as ast::AbstractSyntaxTree>::analyze::check_argument_types')
                            rows = guards.decision_table(ctx, lt, plain=True)
                            ok = any(r['out'].startswith('ok') and any(c.startswith('Eq(len(') and c.endswith('=T') for c in r['conds']) for r in rows)
                seen[key] = seen.get(key, True) and ok
                if not ok:
                    seen[key + '#why'] = 'zip(%s, %s) reached without a length equality test on path [%s]' % (sa_, sb_, cond_str(p.conds[:e[5]])[:200])
        for key, ok in seen.items():
            if key.endswith('#why'):
                continue
            n += 1
            ctx.ob(rid, key, ok, 'zipped sequences have equal length (or one is infinite)', fn.where(), seen.get(key + '#why'))
    ctx.floor(rid, 'zip sites', n, 3)
