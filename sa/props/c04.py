"""C04 Front end accepts exactly the well-typed programs."""
import re
from ..util import *
from .. import guards
from .layout import S

EXPLANATION = ('Decides presence and exact predicate of every static check of the front end: for each of the analysis functions (ast.rs analyze impls '
               'and Scope methods, Pattern::is_of_type, literal parsers, alias resolution, module analysis, Match::parse arm compatibility) the complete '
               'decision table is reconstructed from MIR by path exploration - canonical path conditions (comparison operands ordered, polarity '
               'folded, nominal vs structural comparison visible in the callee type), the ordered list of `?`-checked operations passed, and the '
               'outcome (constructed AST node, Err variant, panic, loop) - and must equal the reviewed table tables/guards.json (argued in '
               'tables/guards.md against the clauses of C04). Deleting a check removes rows, weakening a comparison or reordering a check '
               'changes a row, an early Ok adds one. Completeness of the rule set against an independent type system is not decided.')
NOT_DECIDED = ['completeness of the checks with respect to an independent checker written from the book', 'grammar acceptance beyond the keyword rules of C17']
ASSUMPTIONS = ['the reviewed table was frozen from a tree whose checks were read against the book (tables/guards.md)']

EXCLUDE = re.compile(r'^(witness::WitnessValues::is_consistent)$')


def table_rule(ctx, rid, select, what):
    ctx.rule(rid, 'decision tables (conditions, passed `?` checks, outcome) of %s equal the reviewed table' % what)
    fx = ctx.facts()
    table = guards.load_table()
    cur = set(guards.guard_functions(fx))
    paths = sorted(p for p in (set(table) | cur) if select(p))
    n = guards.compare(ctx, rid, paths, table, what)
    return n, len(paths)


def check(ctx):
    n, f = table_rule(ctx, 'R04.1', lambda p: not EXCLUDE.match(p), 'the front end')
    ctx.floor('R04.1', 'front-end functions with a decision table', f, 60)
    ctx.floor('R04.1', 'decision rows', n, 300)
    from . import c03
    c03.r_binders(ctx, 'R04.3')
