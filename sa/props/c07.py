"""C07 Types, values and casts follow the documented structural layout."""
import re
from ..core import sv, walk, Explorer
from ..util import *
from .layout import S, strip
from . import layout, binding, c01
from .. import guards

EXPLANATION = ('Decides the layout rules symbolically in n (no sizes are sampled): (R07.1) balanced split half = n − next_power_of_two(n)/2 with the '
               'earlier elements left, identical in the folder (BTreeSlice::as_node) and the unfolder; (R07.2) list partition: block of bound/2 '
               'first (filled iff len ≥ bound/2), rest under bound/2, leaf at bound 2, Combiner consumes block then rest; (R07.3) every structural '
               'encoder/decoder goes through those two functions; (R07.4) the nine uN widths agree cell by cell across bit_width, from_bit_width, '
               'StructuralType (2^(2^k)), StructuralValue (SimValue::uN), Display, UIntType::parse, grammar unsigned_type, parse_decimal and the '
               'as_integer shifts; (R07.5) cast guard is structural equality and the cast emits the argument unchanged; (R07.6) sum encoders and '
               'decoders agree on left = false/None/Left. Final::two_two_n, SimValue::uN and bit collection live in simplicity-lang.')
NOT_DECIDED = ['Final::two_two_n / SimValue::uN / collect_bits inside simplicity-lang', 'round-trip equality over all values (behavioural)']
ASSUMPTIONS = ['simplicity-lang: two_two_n(k) is the type of 2^k bits as nested pairs of halves; SimValue::left/right/none/some/product as named']

WIDTHS = {'U1': 1, 'U2': 2, 'U4': 4, 'U8': 8, 'U16': 16, 'U32': 32, 'U64': 64, 'U128': 128, 'U256': 256}


def variant_map(ctx, fn, pick=None):
    """{variant label: rendered return value} for the returning paths of a function switching on a UIntType/UIntValue."""
    out = {}
    for kind, p, ret in explore(ctx, fn):
        if kind != 'RET':
            continue
        labs = [l for w, l in p.conds if l in WIDTHS]
        if len(labs) != 1:
            continue
        out[labs[0]] = S(ret) if pick is None else pick(p, ret)
    return out


UINT_KEYS = {'get_type', 'from-primitive', 'bit_width', 'from_bit_width', 'structural-type', 'structural-value', 'display', 'parse', 'grammar', 'grammar:no-prefix-shadowing', 'parse_decimal', 'try_from-bytes', 'as_integer:shifts'}


def r_uint_tables(ctx, only=None):
    """`only`: set of obligation keys to impose (other properties select the tables they depend on)."""
    rid = 'R07.4'

    def ob(r, key, *a, **k):
        if only is None or key in only:
            ctx.ob(r, key, *a, **k)
    ctx.rule(rid, 'uN table agreement: for each of the nine widths all sibling tables name the same width N (bits), log2(N) and constructor')
    fx = ctx.facts()
    import math
    bw = variant_map(ctx, ctx.anchor(fx, 'types::UIntType::bit_width'))
    ob(rid, 'bit_width', bw == {v: 'new_unchecked(%d_usize)' % n for v, n in WIDTHS.items()}, 'UIntType::bit_width: Uk ↦ k', None, str(bw))
    fb = {}
    fn = ctx.anchor(fx, 'types::UIntType::from_bit_width')
    for kind, p, ret in explore(ctx, fn):
        if kind == 'RET' and p.conds and S(p.conds[0][0]) == 'get(bit_width)':
            fb[p.conds[0][1]] = S(ret)
    exp = {str(n): 'Some{%s{}}' % v for v, n in WIDTHS.items()}
    exp['!' + '|'.join(str(n) for n in sorted(WIDTHS.values()))] = 'None{}'
    ob(rid, 'from_bit_width', fb == exp, 'from_bit_width: k ↦ Uk, anything else ↦ None', fn.where(), str(fb))
    st = variant_map(ctx, ctx.anchor(fx, '<types::StructuralType as std::convert::From<types::UIntType>>::from'))
    ob(rid, 'structural-type', st == {v: 'StructuralType{two_two_n(%d_usize)}' % int(math.log2(n)) for v, n in WIDTHS.items()}, 'StructuralType::from(Uk) = 2^(2^log2 k)', None, str(st))
    sv_ = variant_map(ctx, ctx.anchor(fx, '<value::StructuralValue as std::convert::From<value::UIntValue>>::from'))
    exp = {v: 'StructuralValue{u%d(value@%s.0)}' % (n, v) for v, n in WIDTHS.items()}
    exp['U256'] = 'StructuralValue{u256(to_byte_array(value@U256.0))}'
    ob(rid, 'structural-value', sv_ == exp, 'StructuralValue::from(Uk(n)) = SimValue::uk(n)', None, str(sv_))
    gt = variant_map(ctx, ctx.anchor(fx, 'value::UIntValue::get_type'))
    ob(rid, 'get_type', gt == {v: '%s{}' % v for v in WIDTHS}, 'UIntValue::get_type: Uk(_) ↦ Uk (the type every consistency check compares)', None, str(gt))
    prim = {}
    for n in (8, 16, 32, 64, 128):
        pf = fx.F.get('<value::UIntValue as std::convert::From<u%d>>::from' % n)
        if pf is not None:
            prim[n] = [S(r) for k, p, r in explore(ctx, pf) if k == 'RET']
    ob(rid, 'from-primitive', prim == {n: ['U%d{%s}' % (n, fx.F['<value::UIntValue as std::convert::From<u%d>>::from' % n].names.get(1, 'value'))] for n in (8, 16, 32, 64, 128)}, 'UIntValue::from(x: uN) = UN(x)', None, str(prim))
    dp = {}
    fn = ctx.anchor(fx, '<types::UIntType as std::fmt::Display>::fmt')
    for kind, p, ret in explore(ctx, fn):
        labs = [l for w, l in p.conds if l in WIDTHS]
        ws = [S(e[2][1]) for e in event_calls(p, 'write_str')]
        if kind == 'RET' and len(labs) == 1 and len(ws) == 1:
            dp[labs[0]] = ws[0]
    ob(rid, 'display', dp == {v: '"u%d"' % n for v, n in WIDTHS.items()}, 'Display: Uk ↦ "uk"', fn.where(), str(dp))
    pr = {}
    fn = ctx.anchor(fx, '<types::UIntType as parse::PestParse>::parse')
    for kind, p, ret in explore(ctx, fn):
        if kind != 'RET' or ret_kind(ret) != 'ok':
            continue
        hit = [S(w) for w, l in p.conds if l != '0' and S(w).startswith('eq(as_str(pair), ')]
        if len(hit) == 1:
            pr[hit[0][len('eq(as_str(pair), '):-1]] = S(ret[2][0])
    ob(rid, 'parse', pr == {'"u%d"' % n: '%s{}' % v for v, n in WIDTHS.items()}, 'UIntType::parse: "uk" ↦ Uk', fn.where(), str(pr))
    from ..grammar import Grammar
    g = Grammar(fx.grammar)
    lits = g.literals('unsigned_type')
    ob(rid, 'grammar', lits == {'u%d' % n for n in WIDTHS.values()}, 'grammar unsigned_type literals = u1..u256', 'src/minimal.pest (unsigned_type)', str(sorted(lits)))
    n_sh, bad = g.prefix_shadowing()
    sh = [x for x in bad if re.match(r'^u\d+$', x[1]) and re.match(r'^u\d+$', x[2]) and x[3]]
    ob(rid, 'grammar:no-prefix-shadowing', not sh, 'inside a guarded keyword choice no integer type name is a proper prefix of a later one (u1 after u16/u128)', 'src/minimal.pest', str(sh))
    # parse_decimal: Uk ↦ str::parse::<uk>
    fn = ctx.anchor(fx, 'value::UIntValue::parse_decimal')
    pd = {}
    inst = {}
    for kind, p, ret in explore(ctx, fn, follow_break=True):
        labs = [l for w, l in p.conds if l in WIDTHS]
        if len(labs) != 1:
            continue
        for e in event_calls(p, 'parse'):
            m = re.search(r'parse::<([\w:]+)>', e[1] + ' ' + str([t0 for t0 in [e]][0][1]))
        pc = [c for x in ([ret] + [w for w, l in p.conds]) if isinstance(x, tuple) for c in calls_in(x, 'parse') if 'str' in c[1]]
        if pc:
            m = re.search(r'parse::<([\w:]+)>', pc[0][3])
            if m:
                inst[labs[0]] = m.group(1).split('::')[-1]
    from .. import guards as guards_
    # the constructor the parsed number is wrapped in, read from the decision rows (written with `?`, map or and_then alike)
    for r in guards_.decision_table(ctx, fn, plain=True):
        labs = [c[3:] for c in r['conds'] if c.startswith('ty=') and c[3:] in WIDTHS]
        if len(labs) != 1 or r['out'].startswith('err'):
            continue
        m = re.match(r'^(?:Ok\{)?(\w+)[\{\(]parse\(', r['value'])
        pd[labs[0]] = (inst.get(labs[0]), m.group(1) if m else None)
    exp = {v: ('u%d' % n, v) for v, n in WIDTHS.items()}
    exp.update({'U1': ('u8', 'u1'), 'U2': ('u8', 'u2'), 'U4': ('u8', 'u4'), 'U256': ('U256', 'U256')})
    ob(rid, 'parse_decimal', pd == exp, 'parse_decimal: Uk ↦ s.parse::<uk>() wrapped in Uk (u1/u2/u4 through u8 and the range-checked constructors)', fn.where(), str(pd))
    # byte slices -> integers: big-endian for every width (sibling agreement across the arms)
    fn = ctx.anchor(fx, '<value::UIntValue as std::convert::TryFrom<&[u8]>>::try_from')
    tf = {}
    for kind, p, ret in explore(ctx, fn):
        if kind == 'RET' and p.conds and S(p.conds[0][0]) == 'len(value)':
            v = ret
            inst = ''
            for x in walk(ret):
                if is_call(x) and x[1].split('::')[-1] in ('from_be_bytes', 'from_le_bytes', 'from_ne_bytes', 'from_byte_array'):
                    inst = x[1].split('::')[-1] + ':' + (re.search(r'(u\d+|U256)', x[3] or x[1]).group(1) if re.search(r'(u\d+|U256)', x[3] or x[1]) else '?')
            tf[p.conds[0][1]] = (S(ret).split('{')[1] if ret_kind(ret) == 'ok' else S(ret), inst)
    exp = {'1': ('U8', ''), '2': ('U16', 'from_be_bytes:u16'), '4': ('U32', 'from_be_bytes:u32'), '8': ('U64', 'from_be_bytes:u64'), '16': ('U128', 'from_be_bytes:u128'), '32': ('U256', 'from_byte_array:U256'),
           '!1|2|4|8|16|32': ('Err{"Too many bytes"}', '')}
    ob(rid, 'try_from-bytes', tf == exp, 'TryFrom<&[u8]>: k bytes ↦ U(8k) read big-endian (from_be_bytes) for every width', fn.where(), str(tf))
    # as_integer shifts
    fn = [f for f in fx.find(r'^value::destruct::as_integer$')]
    ctx.floor(rid, 'destruct::as_integer', len(fn), 1)
    for f in fn:
        sh = {}
        for kind, p, ret in explore(ctx, f, follow_break=False):
            if kind != 'RET':
                continue
            labs = [l for w, l in p.conds if S(w) == 'get(bit_width(ty))']
            if len(labs) == 1 and labs[0] in ('1', '2', '4'):
                sh[labs[0]] = S(ret)
        ok = all(re.search(r'U%s\{Shr\(.*, %d_i32\)\}' % (k, 8 - int(k)), v or '') for k, v in sh.items()) and set(sh) == {'1', '2', '4'}
        ob(rid, 'as_integer:shifts', ok, 'as_integer: sub-byte widths are read from the top bits: shift = 8 − width', f.where(), str(sh))


def r_shared_callee(ctx):
    rid = 'R07.3'
    ctx.rule(rid, 'every structural encoder/decoder goes through BTreeSlice (arrays, tuples) and Partition/Combiner (lists); block wrapper is sum(unit, array)')
    fx = ctx.facts()
    need = {
        '<types::StructuralType as types::TypeConstructible>::tuple': ['array::BTreeSlice::fold'],
        '<types::StructuralType as types::TypeConstructible>::array': ['array::BTreeSlice::fold'],
        '<types::StructuralType as types::TypeConstructible>::list': ['array::Partition::fold', 'array::Partition::from_slice'],
        '<value::StructuralValue as value::ValueConstructible>::tuple': ['array::BTreeSlice::fold'],
        '<value::StructuralValue as value::ValueConstructible>::array': ['array::BTreeSlice::fold'],
        '<value::StructuralValue as value::ValueConstructible>::list': ['array::Partition::fold', 'array::Partition::from_slice'],
        '<pattern::BasePattern as std::convert::From<&pattern::Pattern>>::from': ['array::BTreeSlice::fold'],
        'value::destruct::as_tuple': ['array::Unfolder::unfold'],
        'value::destruct::as_array': ['array::Unfolder::unfold'],
        'value::destruct::as_list': ['array::Combiner::unfold'],
        'value::destruct::as_integer': ['array::Unfolder::unfold'],
    }
    for path, callees in need.items():
        fn = ctx.anchor(fx, path)
        have = {c for bid, c, t in deep_calls(fx, fn)}
        for cl in fx.find('^' + re.escape(path) + r'::\{closure#\d+\}$'):
            have |= {c for bid, c, t in cl.calls()}
        for c in callees:
            ctx.ob(rid, 'uses:%s:%s' % (path, c.split('::', 1)[1]), c in have, '%s builds/reads its layout with %s' % (path, c), fn.where())
    # list block wrappers
    cl = ctx.anchor(fx, '<types::StructuralType as types::TypeConstructible>::list::{closure#0}')
    rets = [S(r) for k, p, r in explore(ctx, cl) if k == 'RET']
    ctx.ob(rid, 'type-block', any(r == 'sum(unit(), unwrap(fold(from_slice(block), product)))' for r in rets), 'type of a list block = 1 + balanced array', cl.where(), str(rets))
    cv = ctx.anchor(fx, '<value::StructuralValue as value::ValueConstructible>::list::{closure#0}')
    got = {}
    for k, p, r in explore(ctx, cv):
        if k == 'RET':
            lab = [l for w, l in p.conds if l in ('Some', 'None')]
            got[lab[0] if lab else '?'] = S(r)
    ctx.ob(rid, 'value-block', re.match(r'some\(', got.get('Some', '')) is not None and got.get('None', '').startswith('none(array('), 'value of a list block = some(balanced array) or none(array type of the block size)', cv.value if False else cv.where(), str(got))
    cb = ctx.anchor(fx, 'value::destruct::as_list::{closure#0}')
    got = sorted((cond_str(p.conds), S(r)) for k, p, r in explore(ctx, cb) if k == 'RET')
    exp = [('as_option(value)=None', 'None{}'), ('as_option(value)=Some & as_option(value)@Some.0=None', 'Some{new()}'), ('as_option(value)=Some & as_option(value)@Some.0=Some', 'as_array(as_option(value)@Some.0@Some.0, size)')]
    ctx.ob(rid, 'decode-block', got == sorted(exp), 'decoding a list block: none ↦ no elements, some(array) ↦ as_array(array, block size)', cb.where(), str(got))
    # compile arms: via schema summaries
    c01.schema_rules(ctx, only={'compile::<impl ast::SingleExpression>::compile': r'=(Constant|Tuple|Array|List|Option|Either)\b'})


def r_sum_leaves(ctx):
    rid = 'R07.6'
    ctx.rule(rid, 'sum leaves: false/None/Left are left-tagged, true/Some/Right right-tagged, in encoders and decoders alike; option = 1 + A, bool = 1 + 1')
    fx = ctx.facts()
    fb = ctx.anchor(fx, '<value::StructuralValue as std::convert::From<bool>>::from')
    got = {}
    for k, p, r in explore(ctx, fb):
        if k == 'RET' and p.conds:
            got[p.conds[0][1]] = S(r)
    ctx.ob(rid, 'bool-value', got == {'0': 'StructuralValue{left(unit(), unit())}', '!0': 'StructuralValue{right(unit(), unit())}'}, 'false = left(unit), true = right(unit)', fb.where(), str(got))
    enc = {
        '<value::StructuralValue as value::ValueConstructible>::left': 'StructuralValue{left(left.0, right)}',
        '<value::StructuralValue as value::ValueConstructible>::right': 'StructuralValue{right(left, right.0)}',
        '<value::StructuralValue as value::ValueConstructible>::none': 'StructuralValue{none(inner)}',
        '<value::StructuralValue as value::ValueConstructible>::some': 'StructuralValue{some(inner.0)}',
        '<types::StructuralType as types::TypeConstructible>::either': 'StructuralType{sum(left.0, right.0)}',
        '<types::StructuralType as types::TypeConstructible>::option': 'either(unit(), inner)',
        '<types::StructuralType as types::TypeConstructible>::boolean': 'either(unit(), unit())',
    }
    for path, exp in enc.items():
        fn = ctx.anchor(fx, path)
        rets = [S(r) for k, p, r in explore(ctx, fn) if k == 'RET']
        ctx.ob(rid, 'encoder:' + path.split('::')[-1] + ':' + ('type' if 'types::' in path else 'value'), rets == [exp], '%s = %s' % (path.split('>::')[-1], exp), fn.where(), str(rets))
    dec = {'value::destruct::as_bit': None, 'value::destruct::as_either': None, 'value::destruct::as_option': None}
    fn = ctx.anchor(fx, 'value::destruct::as_bit')
    got = sorted((cond_str(p.conds), S(r)) for k, p, r in explore(ctx, fn) if k == 'RET')
    ok = any('as_left(value)=Some' in c and r == 'Some{false}' for c, r in got) and any('as_right(value)=Some' in c and r == 'Some{true}' for c, r in got) and not any(('as_left(value)=Some' in c and 'as_right' not in c and r == 'Some{true}') for c, r in got)
    ctx.ob(rid, 'decoder:as_bit', ok, 'as_bit: left unit ↦ false, right unit ↦ true', fn.where(), str(got)[:400])
    fn = ctx.anchor(fx, 'value::destruct::as_either')
    got = sorted((cond_str(p.conds), S(r)) for k, p, r in explore(ctx, fn) if k == 'RET')
    ok = ('as_left(value)=Some', 'Some{Left{as_left(value)@Some.0}}') in got and any(c == 'as_left(value)=None' and r == 'map(as_right(value), Right)' for c, r in got)
    ctx.ob(rid, 'decoder:as_either', ok, 'as_either: left ↦ Either::Left, right ↦ Either::Right', fn.where(), str(got)[:400])
    fn = ctx.anchor(fx, 'value::destruct::as_option')
    got = sorted((cond_str(p.conds), S(r)) for k, p, r in explore(ctx, fn) if k == 'RET')
    ok = any('as_left(value)=Some' in c and 'is_unit' in c and r == 'Some{None{}}' for c, r in got) and any(r == 'map(as_right(value), Some)' for c, r in got)
    ctx.ob(rid, 'decoder:as_option', ok, 'as_option: left unit ↦ None, right ↦ Some', fn.where(), str(got)[:400])


def r_cast(ctx):
    rid = 'R07.5'
    ctx.rule(rid, 'cast: accepted iff StructuralType::from(source) == StructuralType::from(target); emits the argument term unchanged')
    table = guards.load_table()
    guards.compare(ctx, rid, ['<ast::Call as ast::AbstractSyntaxTree>::analyze'], table, 'Call::analyze (TypeCast guard)', guards.GUARD_FIELDS,
                   rowsel=lambda path, r: any(c.endswith('=TypeCast') for c in r['conds'][:3]))
    fx = ctx.facts()
    fn = ctx.anchor(fx, '<ast::Call as ast::AbstractSyntaxTree>::analyze')
    seen = False
    for kind, p, ret in explore(ctx, fn):
        if p.conds and p.conds[0][1] == 'TypeCast' and len(p.conds) > 1:
            w = p.conds[1][0]
            seen = seen or (is_call(w) and 'StructuralType' in (w[3] or '') and all(is_call(a) and 'StructuralType' in a[1] and a[1].endswith('::from') for a in w[2]))
    ctx.ob(rid, 'guard:structural', seen, 'the cast guard compares StructuralType::from(source) with StructuralType::from(target)', fn.where())
    c01.schema_rules(ctx, only={'compile::<impl ast::Call>::compile': r'=TypeCast\b'})


def r_reconstruct(ctx):
    rid = 'R07.8'
    ctx.rule(rid, 'typed reconstruction: Value::reconstruct and Value::from_const_expr rebuild each variant with the type components of the node being visited (Left gets the right type, Right the left type, None the inner type, arrays/lists their element type and bound)')
    fx = ctx.facts()
    fn = ctx.anchor(fx, 'value::Value::reconstruct')
    got = {}
    for kind, p, ret in explore(ctx, fn, max_visits=1):
        for e in event_calls(p, 'push'):
            if 'Vec' not in e[1]:
                continue
            before = [(S(w), l) for w, l in p.conds[:e[5]]]
            form = [l for w, l in before if w.endswith('@Some.0.node@Ok.ty)') or w.endswith('"parent is type-checked")')]
            v = S(e[2][1])
            node = re.search(r'(next\(into_iter\(post_order_iter\(destruct\(value, ty\)\)\)\)@Some\.0\.node)', v)
            v = v.replace('as_inner(next(into_iter(post_order_iter(destruct(value, ty))))@Some.0.node@Ok.ty)', 'TY').replace('next(into_iter(post_order_iter(destruct(value, ty))))@Some.0.node', 'NODE')
            v = re.sub(r'split_off\(new\(\), SubWithOverflow\(len\(new\(\)\), n_children\(NODE\)\)\.0\)', 'CHILDREN', v).replace('unwrap(pop(new()))', 'CHILD')
            got['.'.join(form[-2:]) if form and form[-1] in ('Left', 'Right', 'None', 'Some') else (form[-1] if form else '?')] = v
    exp = {'Either.Left': 'left(CHILD, TY@Either.1)', 'Either.Right': 'right(TY@Either.0, CHILD)', 'Option.None': 'none(TY@Option.0)', 'Option.Some': 'some(CHILD)',
           'Tuple': 'tuple(CHILDREN)', 'Array': 'array(CHILDREN, TY@Array.0)', 'List': 'list(CHILDREN, TY@List.0, TY@List.1)',
           'UInt': 'from(as_integer(NODE@Ok.value, TY@UInt.0))', 'Boolean': 'from(as_bit(NODE@Ok.value))'}
    for k in sorted(set(exp) | set(got)):
        ctx.ob(rid, 'reconstruct:' + k, got.get(k) == exp.get(k), 'reconstruct %s ↦ %s' % (k, exp.get(k)), fn.where(), 'found %s' % got.get(k) if got.get(k) != exp.get(k) else None)
    fc = ctx.anchor(fx, 'value::Value::from_const_expr')
    got = {}
    for kind, p, ret in explore(ctx, fc, max_visits=1):
        for e in event_calls(p, 'push'):
            if 'Vec' not in e[1] or not is_call(e[2][1]) or 'ValueConstructible' not in e[2][1][1]:
                continue
            before = [(S(w), l) for w, l in p.conds[:e[5]]]
            form = [l for w, l in before if 'inner(' in w and l in ('Tuple', 'Array', 'List', 'Either', 'Option', 'Left', 'Right', 'None', 'Some')]
            v = S(e[2][1])
            m = re.search(r'ty\(([^()]*(?:\([^()]*\))*[^()]*@Single\.0)\)', v)
            v = re.sub(r'ty\((next\(into_iter\(post_order_iter\(Expression\{expr\}\)\)\)@Some\.0\.node@Single\.0)\)', 'TYPE', v)
            v = v.replace('split_off(new(), SubWithOverflow(len(new()), n_children(next(into_iter(post_order_iter(Expression{expr})))@Some.0.node)).0)', 'CHILDREN').replace('unwrap(pop(new()))', 'CHILD')
            got['.'.join(form[-2:]) if form and form[-1] in ('Left', 'Right', 'None', 'Some') else (form[-1] if form else '?')] = v
    exp = {'Either.Left': 'left(CHILD, expect(as_either(TYPE), "value is type-checked").1)', 'Either.Right': 'right(expect(as_either(TYPE), "value is type-checked").0, CHILD)',
           'Option.None': 'none(expect(as_option(TYPE), "value is type-checked"))', 'Option.Some': 'some(CHILD)', 'Tuple': 'tuple(CHILDREN)',
           'Array': 'array(CHILDREN, expect(as_array(TYPE), "value is type-checked").0)', 'List': 'list(CHILDREN, expect(as_list(TYPE), "value is type-checked").0, expect(as_list(TYPE), "value is type-checked").1)'}
    for k in sorted(set(exp) | set(got)):
        ctx.ob(rid, 'const-fold:' + k, got.get(k) == exp.get(k), 'from_const_expr %s ↦ %s' % (k, exp.get(k)), fc.where(), 'found %s' % got.get(k) if got.get(k) != exp.get(k) else None)


def r_value_to_structural(ctx, rid='R07.9', only=None):
    ctx.rule(rid, 'StructuralValue::from(&Value): each typed value variant becomes the structural constructor of the same name with the type components of that node (into() = StructuralType::from)')
    from .. import guards as G
    fx = ctx.facts()
    fn = ctx.anchor(fx, '<value::StructuralValue as std::convert::From<&value::Value>>::from')
    got = {}
    G._FX[0] = fx
    prev = G._ACC_ON[0]
    G._ACC_ON[0] = True       # `data.node.inner` and `node.inner()` are the same projection
    try:
        for kind, p, ret in explore(ctx, fn, max_visits=1):
            for e in event_calls(p, 'push'):
                if 'Vec' not in e[1]:
                    continue
                before = [(G.unq(G.N(w)), l) for w, l in p.conds[:e[5]]]
                form = [l for w, l in before if w.endswith('.node.inner') or w.endswith('.node.inner@Either.0') or w.endswith('.node.inner@Option.0')]
                v = G.unq(G.N(e[2][1])).replace('next(into_iter(post_order_iter(value))).node', 'NODE')
                v = v.replace('split_off(new(), SubWithOverflow(len(new()), n_children(NODE)).0)', 'CHILDREN').replace('unwrap(pop(new()))', 'CHILD')
                got['.'.join(form[-2:]) if form and form[-1] in ('Left', 'Right', 'None', 'Some') else (form[-1] if form else '?')] = v
    finally:
        G._ACC_ON[0] = prev
    T = 'NODE.ty), "value is type-checked")'
    exp = {'Either.Left': 'left(CHILD, expect(as_either(%s.1)' % T, 'Either.Right': 'right(expect(as_either(%s.0, CHILD)' % T, 'Option.None': 'none(expect(as_option(%s)' % T, 'Option.Some': 'some(CHILD)',
           'Tuple': 'tuple(CHILDREN)', 'Array': 'array(CHILDREN, expect(as_array(%s.0)' % T, 'List': 'list(CHILDREN, expect(as_list(%s.0, NODE.inner@List.1)' % T,
           'UInt': 'from(NODE.inner@UInt.0)', 'Boolean': 'from(NODE.inner@Boolean.0)'}
    for k in sorted(set(exp) | set(got)):
        if only is not None and k not in only:
            continue
        ctx.ob(rid, 'to-structural:' + k, got.get(k) == exp.get(k), 'Value %s ↦ %s' % (k, exp.get(k)), fn.where(), 'found %s' % got.get(k) if got.get(k) != exp.get(k) else None)


LAYOUT_GROUP = r"^(<types::StructuralType as types::TypeConstructible>::|<value::StructuralValue as value::ValueConstructible>::|<value::Value as value::ValueConstructible>::|<types::ResolvedType as types::TypeConstructible>::|value::destruct::|<value::StructuralValue as std::convert::From<|<types::StructuralType as std::convert::From<types::UIntType>>::from|array::|<array::)"


# without the destructors (value::destruct::*, array::Unfolder/Combiner): what constants, witnesses and arguments go through
LAYOUT_CONSTRUCT = r"^(<types::StructuralType as types::TypeConstructible>::|<value::StructuralValue as value::ValueConstructible>::|<value::Value as value::ValueConstructible>::|<types::ResolvedType as types::TypeConstructible>::|<value::StructuralValue as std::convert::From<|<types::StructuralType as std::convert::From<types::UIntType>>::from|array::(BTreeSlice|Partition)|<array::)"
# list and array layout only (fold / list values)
LAYOUT_LIST = r"^(<(types::StructuralType|types::ResolvedType) as types::TypeConstructible>::(list|array|option|product|unit)|<(value::StructuralValue|value::Value) as value::ValueConstructible>::(list|array|none|some|product|unit)|<value::StructuralValue as std::convert::From<&|array::(BTreeSlice|Partition)|<array::)"


def r_layout_tables(ctx, rid, group=LAYOUT_GROUP, floor=30):
    from . import c04
    what = {LAYOUT_GROUP: 'layout constructors, destructors and the tree/partition folds', LAYOUT_CONSTRUCT: 'layout constructors and the tree/partition folds', LAYOUT_LIST: 'list/array layout constructors and the tree/partition folds'}[group]
    c04.group_rule(ctx, rid, group, what + ': complete bodies (every path, call and value)', floor)


def check(ctx):
    r_layout_tables(ctx, 'R07.10')
    from . import c04
    c04.group_rule(ctx, 'R07.11', r"^(num::(NonZero)?Pow2Usize::\w+|<num::(NonZero)?Pow2Usize as (parse::PestParse>::parse|std::str::FromStr>::from_str)(::\{closure#\d+\})*|<(types|value)::[\w:]+(<[^>]*>)? as std::convert::(From|TryFrom)<.*>>::(from|try_from)(::\{closure#\d+\})*|<types::\w+ as types::TypeDeconstructible>::\w+|types::TypeDeconstructible::is_unit|<(&?types::\w+|&?value::\w+|value::Destructor<'_>) as miniscript::iter::TreeLike>::as_node|types::UIntType::two_n|value::UIntValue::(get_type|is_of_type)|<value::UIntValue as std::convert::From<(u\d+|num::U256)>>::from)$", 'type deconstructors and the children of type / value tree nodes in order', 20)
    r_value_to_structural(ctx)
    r_reconstruct(ctx)
    layout.r_btree(ctx, 'R07.1')
    layout.r_partition(ctx, 'R07.2')
    layout.r_pow2(ctx, 'R07.2p')
    r_shared_callee(ctx)
    r_uint_tables(ctx)
    r_cast(ctx)
    r_sum_leaves(ctx)
    binding.r_base_pattern(ctx, 'R07.7')
