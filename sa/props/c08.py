"""C08 fold consumes list elements first to last, each exactly once."""
import re
from ..core import sv, walk, Explorer
from ..util import *
from ..simpl import *
from ..termx import *
from . import layout

EXPLANATION = ('Decides, for all bounds and lengths by induction over the doubling construction, that the combinator emitted by list_fold '
               'satisfies the fold equations: the Simplicity terms built by next_f_array / next_f_fold / the base case are reconstructed from '
               'MIR (def-use of the builder calls, helper bodies inlined) and evaluated symbolically on a structured input; results must be '
               'f_(n+1)((lo,hi),a) = f_n(hi, f_n(lo,a)), fold_1((o,a)) = case o {L => a | R e => f(e,a)}, '
               'fold_(n+1)(((blk,rest),a)) = case blk {L => fold_n(rest,a) | R b => fold_n(rest, f_n(b,a))}, each sub-program applied exactly '
               'once per element on the taken branch and nothing else forced. The loop wiring of list_fold (start TWO, double while i < bound, '
               'f_array advanced before next_f_fold reads it) and the block order of the list layout (Partition: big block first, holds the '
               'first elements; balanced array tree: left half = earlier elements) are checked from MIR. Combinator semantics are trusted.')
NOT_DECIDED = ['semantics of Simplicity combinators on the Bit Machine', 'that the list value at run time has the documented layout when it comes from a witness (C07)']
ASSUMPTIONS = ['standard semantics of iden/take/drop/pair/comp/case/injl/injr', 'CoreConstructible::bit_false/bit_true = injl unit / injr unit']

LF = 'compile::list_fold'


def r_equations(ctx):
    rid = 'R08.1'
    ctx.rule(rid, 'step equations of the emitted fold combinator (symbolic evaluation of the reconstructed terms)')
    fx = ctx.facts()
    fa = ctx.anchor(fx, LF + '::next_f_array')
    ts = fn_terms(ctx, fa, {0: 'fA'})
    ctx.ob(rid, 'next_f_array:single-path', len(ts) == 1 and ts[0][1] is not None, 'next_f_array builds one term on its single success path', fa.where(), ts[0][2] if ts else None)
    if ts and ts[0][1]:
        inner = "fA(lo, acc)"
        outer = "fA(hi, fA(lo, acc))"
        expect_outcomes(ctx, rid, 'next_f_array:equation', 'f_(n+1)((lo,hi),acc) = f_n(hi, f_n(lo, acc)): lower half first, accumulator threaded, each half once',
                        fa.where(), ts[0][1], P(P(V('lo'), V('hi')), V('acc')), [((), outer, (inner, outer))])
    ff = ctx.anchor(fx, LF + '::next_f_fold')
    ts = fn_terms(ctx, ff, {0: 'fA', 1: 'fold'})
    ctx.ob(rid, 'next_f_fold:single-path', len(ts) == 1 and ts[0][1] is not None, 'next_f_fold builds one term on its single success path', ff.where(), ts[0][2] if ts else None)
    if ts and ts[0][1]:
        expect_outcomes(ctx, rid, 'next_f_fold:equation', 'fold_(n+1)(((blk,rest),acc)) = case blk {L => fold_n(rest,acc) | R b => fold_n(rest, f_n(b,acc))}: block before rest',
                        ff.where(), ts[0][1], P(P(V('blk'), V('rest')), V('acc')),
                        [((('blk', 'L'),), 'fold(rest, acc)', ('fold(rest, acc)',)),
                         ((('blk', 'R'),), 'fold(rest, fA(unr(blk), acc))', ('fA(unr(blk), acc)', 'fold(rest, fA(unr(blk), acc))'))])


def r_wiring(ctx):
    rid = 'R08.2'
    ctx.rule(rid, 'list_fold wiring: f_array_0 = f, fold_0 = case(IH, f); while i < bound (i from TWO, doubling): f_array advanced, then fold = next_f_fold(new f_array, old fold); result = fold')
    fx = ctx.facts()
    fn = ctx.anchor(fx, LF)
    res = explore(ctx, fn, max_visits=3)
    rets = [(p, ret) for kind, p, ret in res if kind == 'RET' and ret_kind(ret) == 'ok']
    rets.sort(key=lambda x: len(x[0].conds))
    ctx.ob(rid, 'paths', len(rets) == 3, 'explored 0, 1 and 2 loop iterations (found %d returning paths)' % len(rets), fn.where())
    f = ('param', 1, fn.names.get(2, 'f'))
    rc = Reconstructor(fx, hole_of=lambda v: 'f' if v == f else None)

    def arr(k):
        v = f
        for _ in range(k):
            v = ('call', LF + '::next_f_array', (v,))
        return v

    def strip(v):
        # drop inst/site decoration of call values for structural comparison
        if isinstance(v, tuple) and v and v[0] == 'call':
            return ('call', v[1], tuple(strip(a) for a in v[2]))
        if isinstance(v, tuple) and v and v[0] == 'try':
            return strip(v[1])
        if isinstance(v, tuple):
            return tuple(strip(x) if isinstance(x, tuple) else x for x in v)
        return v
    base = None
    for k, (p, ret) in enumerate(rets):
        val = strip(ret[2][0])
        # peel k applications of next_f_fold
        cur = val
        ok = True
        for j in range(k, 0, -1):
            if not (is_call(cur, LF + '::next_f_fold') and cur[2][0] == arr(j)):
                ok = False
                break
            cur = cur[2][1]
        if k == 0:
            base = cur
        ok = ok and cur == base and base is not None
        ctx.ob(rid, 'unrolled:%d' % k, ok, 'after %d iterations the result is next_f_fold(f_array_k, fold_(k-1)) with f_array_k = next_f_array^k(f)' % k, fn.where(), sv(ret))
        # loop conditions: lt(mul2^j(TWO), bound) true for j<k, false for j=k
        conds_ok = len(p.conds) == k + 1
        for j, (w, lab) in enumerate(p.conds):
            w = strip(w)
            if not is_call(w, 'lt') or len(w[2]) != 2:
                conds_ok = False
                break
            lhs = w[2][0]
            depth = 0
            while is_call(lhs, 'num::NonZeroPow2Usize::mul2'):
                lhs = lhs[2][0]
                depth += 1
            conds_ok = conds_ok and depth == j and sv(lhs) == 'NonZeroPow2Usize{2_usize}' and w[2][1] == ('param', 0, fn.names.get(1, 'bound'))
            conds_ok = conds_ok and ((lab != '0') if j < k else (lab == '0'))
        ctx.ob(rid, 'loop-cond:%d' % k, conds_ok, 'loop runs while i < bound with i = TWO, 2·TWO, …', fn.where(), cond_str(p.conds))
    # base term
    if rets:
        try:
            t = rc.term(rets[0][1])
            expect_outcomes(ctx, 'R08.1', 'base:equation', 'fold_1((o,acc)) = case o {L => acc | R e => f(e, acc)}', fn.where(), t, P(V('o'), V('acc')),
                            [((('o', 'L'),), 'acc', ()), ((('o', 'R'),), 'f(unr(o), acc)', ('f(unr(o), acc)',))])
        except Opaque as e:
            ctx.ob('R08.1', 'base:equation', False, 'base case term not reconstructible', fn.where(), str(e))
    # mul2 doubles
    layout.r_pow2(ctx, rid)


def r_call_site(ctx):
    rid = 'R08.3'
    ctx.rule(rid, 'Fold arm of Call::compile: body compiled in a child scope of the function parameters, fold_body = list_fold(bound, body), result = args ; fold_body')
    fx = ctx.facts()
    fn = ctx.anchor(fx, 'compile::<impl ast::Call>::compile')
    n = 0
    for kind, p, ret in explore(ctx, fn):
        if kind != 'RET' or not any(l == 'Fold' for w, l in p.conds):
            continue
        n += 1
        lf = event_calls(p, LF)
        ok = len(lf) == 1
        detail = sv(ret)
        if ok:
            b, body = lf[0][2]
            ok = (b[0] == 'field' and b[1][0] == 'down' and b[1][2] == 'Fold' and b[2] == '1'
                  and is_call(body, 'compile::<impl ast::Expression>::compile') and is_call(body[2][0], 'ast::CustomFunction::body')
                  and is_call(body[2][1], 'compile::Scope::child') and is_call(body[2][1][2][1], 'ast::CustomFunction::params_pattern')
                  and body[2][0][2][0] == body[2][1][2][1][2][0])
            v = ret[2][0]
            ok = ok and is_call(v, 'named::PairBuilder::comp') and is_call(v[2][0], 'compile::<impl ast::SingleExpression>::compile') and bool(calls_in(v[2][1], LF))
        ctx.ob(rid, 'fold-arm', ok, 'fold::<f, N>(list, init) = args ; list_fold(N, compile(f.body) under Scope::child(f.params_pattern))', fn.where(lf[0][3] if lf else None), detail)
    ctx.floor(rid, 'Fold arm', n, 1)


def check(ctx):
    r_equations(ctx)
    r_wiring(ctx)
    r_call_site(ctx)
    layout.r_partition(ctx, 'R08.4')
    layout.r_btree(ctx, 'R08.5')
    from . import c07
    c07.r_value_to_structural(ctx, 'R08.6', only={'List', 'Array', 'Option.None', 'Option.Some'})
    c07.r_shared_callee(ctx)
    from . import c12
    c12.r_argument_scopes(ctx)      # the folded function's body is compiled in a child scope
    c07.r_layout_tables(ctx, 'R08.7', c07.LAYOUT_LIST, 10)
    from .. import guards as G
    G.compare(ctx, 'R08.8', ['<ast::CallName as ast::AbstractSyntaxTree>::analyze'], G.load_table(), 'call-name analysis (fold arm: signature f(element, accumulator) -> accumulator)', G.GUARD_FIELDS, rowsel=lambda path, r: any(c.endswith('=Fold') for c in r['conds'][:3]))
    ctx.rule('R08.8', 'fold arm of the call-name analysis: the folded function has two parameters and returns the type of its second (the accumulator)')
