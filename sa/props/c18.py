"""C18 Pruning for an environment never changes the verdict."""
from . import satisfy

EXPLANATION = ('The behaviour of pruning lives in simplicity-lang and is not decided. Decided: the simfony-side necessary conditions in '
               'satisfy_with_env: Some(env) calls finalize_pruned on the populated node with exactly the caller\'s env, None calls finalize_unpruned; '
               'the finalizer Result reaches the caller through `?` (an execution failure is not swallowed); the returned program is the finalizer\'s '
               'output; the witness type check gates both arms; to_witness_node has no other caller.')
NOT_DECIDED = ['which branches are pruned', 'Bit Machine verdict of pruned vs unpruned program', 'CMR preservation by RedeemNode::prune']
ASSUMPTIONS = ['simplicity-lang finalize_pruned = finalize_unpruned + RedeemNode::prune(env) and returns Err exactly when the unpruned program fails under env']


def check(ctx):
    from . import c07, layout
    c07.r_shared_callee(ctx)
    layout.r_btree(ctx, 'R18.5')
    layout.r_partition(ctx, 'R18.6')
    c07.r_value_to_structural(ctx, 'R18.7')
    c07.r_layout_tables(ctx, 'R18.8', c07.LAYOUT_CONSTRUCT, 20)
    c07.r_uint_tables(ctx, only={'get_type', 'from-primitive', 'structural-value', 'structural-type'})
    satisfy.r_witness_node_typing(ctx, 'R18.9')
    satisfy.r_finalizers(ctx, 'R18.1')
    satisfy.r_consistency_gate(ctx, 'R18.2')
    satisfy.r_single_caller(ctx, 'R18.3', 'named::to_witness_node', {satisfy.SAT})
    satisfy.r_single_caller(ctx, 'R18.4', satisfy.SAT, {'CompiledProgram::satisfy'})
    if ctx.tier == 'thorough':
        from .. import witness
        witness.run(ctx, 'R18.W', ['W3'])
