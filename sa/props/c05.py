"""C05 satisfy type-checks witnesses and delivers each value to its name."""
import re
from ..core import sv, walk
from ..util import *
from . import satisfy

EXPLANATION = ('Decides the structural necessary conditions of C05 on the MIR of /repo: (R05.1) must-pass-through/dominance of the '
               'witness type check before population in satisfy_with_env with argument provenance, (R05.2) who-may-call of to_witness_node, '
               '(R05.3) exact path structure of WitnessValues::is_consistent (nominal comparison, skip only undeclared names), '
               '(R05.4) provenance of CompiledProgram fields, (R05.5) delivery by name (Populator looks up the node\'s own name; witness nodes '
               'are named by the source expression; insert_witness records name->type once, only in main). Not the run-time behaviour.')
NOT_DECIDED = ['run-time equality of delivered bits (Value encoding inside simplicity-lang)', 'Bit Machine behaviour']
ASSUMPTIONS = ['simplicity-lang Converter::convert_witness is invoked once per witness node with that node\'s name']


def r_provenance(ctx):
    rid = 'R05.4'
    ctx.rule(rid, 'every struct literal of CompiledProgram takes simplicity and witness_types from the same analysed program (or is Default)')
    fx = ctx.facts()
    n = 0
    for p, fn in fx.F.items():
        hit = any(st['rv']['k'] == 'agg' and st['rv']['kind'] == 'adt:CompiledProgram::CompiledProgram' for b in fn.blocks.values() if not b['cleanup'] for st in b['stmts'])
        if not hit or fn.macro:
            continue
        n += 1
        ctx.saw(fn)
        if p == '<CompiledProgram as std::default::Default>::default':
            ctx.ob(rid, 'literal:' + p, True, 'default program (unit, no witnesses)', fn.where())
            continue
        if p != 'TemplateProgram::instantiate':
            ctx.ob(rid, 'literal:' + p, False, 'unexpected construction site of CompiledProgram', fn.where())
            continue
        ok_all = False
        for kind, path, ret in explore(ctx, fn, follow_break=True):
            if kind != 'RET' or ret_kind(ret) != 'ok':
                continue
            lit = [x for x in walk(ret) if x[0] == 'agg' and x[1] == 'adt:CompiledProgram::CompiledProgram']
            if not lit:
                continue
            simp, wt = lit[0][2][0], lit[0][2][1]
            c = calls_in(simp, 'compile')
            w = calls_in(wt, 'witness_types')
            ok = bool(c) and bool(w) and field_of_param(c[0][2][0], 'self', 'simfony') and field_of_param(w[0][2][0], 'self', 'simfony')
            ok_all = ok
            ctx.ob(rid, 'literal:' + p, ok, 'simplicity = self.simfony.compile(..) and witness_types = self.simfony.witness_types()', fn.where(), sv(lit[0]))
        if not ok_all:
            ctx.ob(rid, 'literal:%s:success-path' % p, False, 'no success path with the expected literal', fn.where())
    ctx.floor(rid, 'CompiledProgram literals', n, 2)


def r_delivery(ctx):
    rid = 'R05.5'
    ctx.rule(rid, 'delivery by name: Populator::convert_witness = values.get(node name); witness node name = source witness name; insert_witness(name, ty) precedes the AST node, is main-only and once per name')
    fx = ctx.facts()
    # (a) Populator
    pops = [f for f in fx.find(r'^<named::to_witness_node::Populator as .*Converter<.*>>::convert_witness$')]
    ctx.floor(rid, 'Populator::convert_witness', len(pops), 1)
    for fn in pops:
        for kind, p, ret in explore(ctx, fn, follow_break=True):
            if kind != 'RET':
                continue
            g = [c for c in calls_in(ret) if c[1].endswith('::get')]
            name_param = fn.names.get(3, 'witness')
            ok = (ret_kind(ret) == 'ok' and len(g) == 1 and g[0][1] == 'witness::WitnessValues::get'
                  and field_of_param(g[0][2][0], 'self', 'values') and g[0][2][1][0] == 'param' and g[0][2][1][1] == 2 and not p.conds)
            ctx.ob(rid, 'populator:lookup-own-name', ok, 'the value inserted into a witness node is values.get(<that node\'s name>)', fn.where(), sv(ret))
    # (b) compile: witness(ctx, name of the AST node)
    fn = ctx.anchor(fx, 'compile::<impl ast::SingleExpression>::compile')
    n = 0
    for kind, p, ret in explore(ctx, fn):
        for e in event_calls(p, 'witness'):
            if 'PairBuilder' not in e[1]:
                continue
            n += 1
            arm = [l for w, l in p.conds if l == 'Witness']
            nm = e[2][1]
            ok = bool(arm) and nm[0] == 'field' and nm[1][0] == 'down' and nm[1][2] == 'Witness'
            ctx.ob(rid, 'compile:witness-name', ok, 'witness node is named after the Witness(name) expression being compiled', fn.where(e[3]), sv(nm))
            break
    ctx.floor(rid, 'PairBuilder::witness sites', n, 1)
    sites = fx.callers_of(lambda c: c.startswith('named::PairBuilder') and c.endswith('::witness'))
    for f, bid, c, t in sites:
        ctx.ob(rid, 'witness-node-creator:' + f.path, f.path == fn.path, 'witness nodes are created only by SingleExpression::compile', f.where(t['line']))
    # (c) analysis: insert_witness gate
    an = ctx.anchor(fx, '<ast::SingleExpression as ast::AbstractSyntaxTree>::analyze')
    found = 0
    for kind, p, ret in explore(ctx, an, follow_break=True):
        if kind != 'RET' or ret_kind(ret) != 'ok':
            continue
        lits = [x for x in walk(ret) if x[0] == 'agg' and x[1] == 'adt:ast::SingleExpressionInner::Witness']
        for lit in lits:
            found += 1
            lab = try_cond_of(p, 'insert_witness')
            ins = event_calls(p, 'insert_witness')
            ok = lab == 'Continue' and len(ins) == 1
            detail = None
            if ok:
                nm, ty = ins[0][2][1], ins[0][2][2]
                ok = nm == lit[2][0] and has_param(ty, 'ty') and ty[0] == 'param'
                detail = 'insert_witness(%s, %s) vs Witness(%s)' % (sv(nm), sv(ty), sv(lit[2][0]))
            ctx.ob(rid, 'analyze:insert_witness-gates-Witness', ok, 'Witness(name) is built only after insert_witness(name, expected type) succeeded', an.where(), detail)
    ctx.floor(rid, 'Witness AST constructions', found, 1)
    for p2, f in fx.F.items():
        hit = any(st['rv']['k'] == 'agg' and st['rv']['kind'] == 'adt:ast::SingleExpressionInner::Witness' for b in f.blocks.values() if not b['cleanup'] for st in b['stmts'])
        if hit and not f.macro:
            ctx.ob(rid, 'Witness-constructor:' + p2, p2 == an.path, 'SingleExpressionInner::Witness is constructed only in SingleExpression::analyze', f.where())
    # (d) insert_witness itself
    iw = ctx.anchor(fx, 'ast::Scope::insert_witness')
    classes = {}
    for kind, p, ret in explore(ctx, iw, follow_break=True):
        if kind != 'RET':
            continue
        cs = cond_str(p.conds)
        rk = ret_kind(ret)
        ev = err_variants(ret)
        first = p.conds[0] if p.conds else None
        main_first = first is not None and first[0][0] in ('field', 'un') and 'is_main' in sv(first[0])
        if not main_first:
            ctx.ob(rid, 'insert_witness:is_main-first', False, 'first test of insert_witness is not `is_main`', iw.where(), cs)
            continue
        if ev == ['WitnessOutsideMain']:
            classes['outside'] = (len(p.conds) == 1)
        elif ev == ['WitnessReused']:
            # accepted idioms: match entry(name) { Occupied => Err } or if contains_key(name) { return Err }
            classes['reused'] = any(l == 'Occupied' or (is_call(w, 'contains_key') and l != '0') for w, l in p.conds)
        elif rk == 'ok':
            ins = [e for e in event_calls(p) if e[1].endswith('VacantEntry::<K, V>::insert') or e[1].endswith('::insert')]
            tyv = ('param', 2, iw.names.get(3, 'ty'))
            fresh_test = any(l == 'Vacant' or (is_call(w, 'contains_key') and l == '0') for w, l in p.conds)
            classes['fresh'] = fresh_test and len(ins) == 1 and ins[0][2][-1] == tyv
        else:
            classes['other:' + cs] = False
    for k in ('outside', 'reused', 'fresh'):
        ctx.ob(rid, 'insert_witness:' + k, classes.get(k, False), {'outside': '!is_main => WitnessOutsideMain', 'reused': 'occupied name => WitnessReused', 'fresh': 'vacant name => record the declared type'}[k], iw.where())
    for k, v in classes.items():
        if k.startswith('other'):
            ctx.ob(rid, 'insert_witness:' + k[:80], False, 'unexpected path in insert_witness', iw.where())
    # only main sets is_main
    w = []
    for p2, f in fx.F.items():
        for b in f.blocks.values():
            if b['cleanup']:
                continue
            for st in b['stmts']:
                if any(pp.endswith(':is_main') for pp in st['lhs']['p']):
                    w.append((f, st))
    for f, st in w:
        ctx.ob(rid, 'is_main-writer:' + f.path, f.path in ('ast::Scope::push_main_scope', 'ast::Scope::pop_main_scope'), 'is_main is written only by push_main_scope/pop_main_scope', f.where(st['line']))
    satisfy.r_single_caller(ctx, 'R05.5m', 'ast::Scope::push_main_scope', {'<ast::Function as ast::AbstractSyntaxTree>::analyze'})


def check(ctx):
    satisfy.r_consistency_gate(ctx, 'R05.1')
    satisfy.r_single_caller(ctx, 'R05.2', 'named::to_witness_node', {satisfy.SAT})
    satisfy.r_is_consistent_witness(ctx, 'R05.3')
    r_provenance(ctx)
    r_delivery(ctx)
    satisfy.r_finalizers(ctx, 'R05.6')
    satisfy.r_witness_node_typing(ctx, 'R05.9')
    # the supplied value reaches the witness node as StructuralValue::from(value): its encoding must follow the value's own type
    from . import c07
    c07.r_value_to_structural(ctx, 'R05.7')
    c07.r_sum_leaves(ctx)
    c07.r_shared_callee(ctx)
    c07.r_layout_tables(ctx, 'R05.8', c07.LAYOUT_CONSTRUCT, 20)
    c07.r_uint_tables(ctx, only={'get_type', 'from-primitive', 'structural-value', 'structural-type'})   # the value's reported type and its encoding
    # the declared witness type is what the scope records: alias definitions, alias resolution and the witness table itself
    from . import c04
    c04.group_rule(ctx, 'R05.10', r'^(ast::Scope::(insert_witness|insert_alias|resolve)(::\{closure#\d+\})?|types::AliasedType::(resolve|resolve_builtin)(::\{closure#\d+\})?|types::BuiltinAlias::resolve|<ast::Program as ast::AbstractSyntaxTree>::analyze|ast::Program::analyze)$', 'recording of declared witness types (alias table, alias resolution, witness table): complete bodies', 4)
    from . import c03
    from .. import guards as G
    c04.table_rule(ctx, 'R05.11', lambda p: bool(c03.TYPING.match(p)), 'the typing functions that determine the type a witness expression is declared at', G.GUARD_FIELDS)
    if ctx.tier == 'thorough':
        from .. import witness
        witness.run(ctx, 'R05.W', ['W1', 'W3'])
