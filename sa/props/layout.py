"""Layout rules shared by C07, C08, C10: power-of-two helpers, balanced tree split, list partition."""
import re
from ..core import sv, walk
from ..util import *


def strip(v):
    """Drop inst/site decoration of call values."""
    if isinstance(v, tuple) and v and v[0] == 'call':
        if len(v) > 5 and v[5]:
            return ('call', v[1], tuple(strip(a) for a in v[2]), '', None, v[5])     # keep the occurrence tag of repeated effectful calls
        return ('call', v[1], tuple(strip(a) for a in v[2]))
    if isinstance(v, tuple) and v and v[0] == 'try':
        return strip(v[1])
    if isinstance(v, tuple):
        return tuple(strip(x) if isinstance(x, tuple) else x for x in v)
    return v


def S(v):
    return sv(strip(v))


def r_pow2(ctx, rid):
    """mul2 doubles, checked_div2 halves (None at the smallest), TWO = 2, ONE = 1."""
    fx = ctx.facts()
    for path, ctor in (('num::NonZeroPow2Usize::mul2', 'NonZeroPow2Usize'), ('num::Pow2Usize::mul2', 'Pow2Usize')):
        fn = ctx.anchor(fx, path)
        rets = [(p, r) for k, p, r in explore(ctx, fn) if k == 'RET']
        ok = len(rets) == 1 and S(rets[0][1]) == '%s{MulWithOverflow(self.0, 2_usize).0}' % ctor
        ctx.ob(rid, 'pow2:' + path, ok, '%s returns self.0 * 2' % path, fn.where(), S(rets[0][1]) if rets else None)
    fn = ctx.anchor(fx, 'num::NonZeroPow2Usize::checked_div2')
    rets = sorted(S(r) for k, p, r in explore(ctx, fn) if k == 'RET')
    ctx.ob(rid, 'pow2:checked_div2', rets == ['None{}', 'Some{NonZeroPow2Usize{Div(self.0, 2_usize)}}'], 'checked_div2 returns self.0 / 2 or None', fn.where(), str(rets))
    for path, exp in (('num::NonZeroPow2Usize::TWO', 'NonZeroPow2Usize{2_usize}'), ('num::Pow2Usize::ONE', 'Pow2Usize{1_usize}')):
        fn = ctx.anchor(fx, path)
        rets = [S(r) for k, p, r in explore(ctx, fn) if k == 'RET']
        ctx.ob(rid, 'pow2:' + path, rets == [exp], '%s = %s' % (path, exp), fn.where(), str(rets))
    fn = ctx.anchor(fx, 'num::NonZeroPow2Usize::get')
    rets = [S(r) for k, p, r in explore(ctx, fn) if k == 'RET']
    ctx.ob(rid, 'pow2:get', rets == ['self.0'], 'NonZeroPow2Usize::get returns the wrapped number', fn.where(), str(rets))


HALF = 'SubWithOverflow(len(self.0), Div(next_power_of_two(len(self.0)), 2_usize)).0'


def r_btree(ctx, rid):
    """R07.1 split rule of the balanced tree view, and its inverse in Unfolder."""
    ctx.rule(rid, 'balanced tree split: half = n − next_power_of_two(n)/2, left = [..half] (earlier elements), right = [half..]; Unfolder::unfold uses the same half and yields left before right; BTreeSlice::fold applies f(l, r)')
    fx = ctx.facts()
    fn = ctx.anchor(fx, "<array::BTreeSlice<'_, A> as miniscript::iter::TreeLike>::as_node")
    rets = [(p, r) for k, p, r in explore(ctx, fn) if k == 'RET']
    null = sorted(cond_str(p.conds) for p, r in rets if S(r) == 'Nullary{}')
    ctx.ob(rid, 'btree:leaf', null == ['len(self.0)=0', 'len(self.0)=1'], 'slices of length 0 or 1 are leaves', fn.where(), str(null))
    bins = [(p, r) for p, r in rets if S(r) != 'Nullary{}']
    ok = len(bins) == 1
    if ok:
        exp = 'Binary{from_slice(index(self.0, RangeTo{%s})), from_slice(index(self.0, RangeFrom{%s}))}' % (HALF, HALF)
        ok = S(bins[0][1]) == exp
    ctx.ob(rid, 'btree:split', ok, 'Binary(self[..half], self[half..]) with half = n − next_power_of_two(n)/2', fn.where(), S(bins[0][1]) if bins else None)
    # BTreeSlice::fold: 2 children => r = pop, l = pop, push f(l, r)
    ff = [f for f in fx.find(r"^array::BTreeSlice::<'_, A>::fold$")]
    ctx.floor(rid, 'BTreeSlice::fold', len(ff), 1)
    for f in ff:
        found = False
        for k, p, r in explore(ctx, f, max_visits=2, keep_site=True):
            for e in event_calls(p):
                if e[1].endswith('::call') and len(e[2]) == 2 and e[2][1][0] == 'agg' and e[2][1][1] == 'tuple' and len(e[2][1][2]) == 2:
                    l, rr = e[2][1][2]
                    lp = [c for c in calls_in(l, 'pop')]
                    rp = [c for c in calls_in(rr, 'pop')]
                    found = True
                    ok = len(lp) == 1 and len(rp) == 1 and lp[0][4] is not None and rp[0][4] is not None
                    if ok:
                        order = [x[4] for x in event_calls(p, 'pop')]
                        bbs = [x for x in p.trace]
                        ok = bbs.index(rp[0][4][0]) < bbs.index(lp[0][4][0])
                    ctx.ob(rid, 'btree:fold-order', ok, 'fold combines f(l, r) with r popped first (top of stack = right child), l second', f.where(e[3]), 'f(l = pop@line %s, r = pop@line %s)' % (lp[0][4][1] if lp else '?', rp[0][4][1] if rp else '?'))
                    break
            if found:
                break
        ctx.ob(rid, 'btree:fold-found', found, 'binary combine step of BTreeSlice::fold located', f.where())
    # Unfolder
    uf = fx.find(r'^array::Unfolder::<A>::unfold$')
    ctx.floor(rid, 'Unfolder::unfold', len(uf), 1)
    for f in uf:
        ok = False
        detail = None
        for k, p, r in explore(ctx, f, max_visits=2):
            news = event_calls(p, 'new')
            news = [e for e in news if 'Unfolder' in e[1]]
            pushes = [e for e in event_calls(p, 'push')]
            if len(news) >= 2:
                a, b = news[0], news[1]
                half = 'SubWithOverflow(%s, Div(next_power_of_two(%s), 2_usize)).0'
                sa_, sb_ = S(a[2][1]), S(b[2][1])
                detail = 'first pushed: new(%s, %s); then new(%s, %s)' % (S(a[2][0])[:60], sa_, S(b[2][0])[:60], sb_)
                m = re.search(r'SubWithOverflow\((.*), Div\(next_power_of_two\((.*)\), 2_usize\)\)\.0$', sb_)
                ok = bool(m) and m.group(1) == m.group(2) and 'saturating_sub(%s, %s)' % (m.group(1), sb_) == sa_ and S(a[2][0]).endswith('.1') and S(b[2][0]).endswith('.0')
                break
        ctx.ob(rid, 'unfold:split', ok, 'Unfolder pushes (right, n − half) then (left, half): left leaves come out first, same half as as_node', f.where(), detail)


def r_partition(ctx, rid):
    """R07.2 partition rule of lists."""
    ctx.rule(rid, 'list partition: Parent{slice, bound} = (block of bound/2: slice[..k] if len ≥ k else empty, partition of the rest under bound/2); leaf when bound = 2; Combiner consumes block then rest')
    fx = ctx.facts()
    fn = ctx.anchor(fx, "<array::Partition<'_, A> as miniscript::iter::TreeLike>::as_node")
    rets = [(p, r) for k, p, r in explore(ctx, fn) if k == 'RET']
    K = 'get(unwrap(checked_div2(self@Parent.bound)))'
    B2 = 'unwrap(checked_div2(self@Parent.bound))'
    exp = {
        'Nullary{}': 'leaf',
        'Binary{Leaf{index(self@Parent.slice, RangeTo{%s}), %s}, from_slice(index(self@Parent.slice, RangeFrom{%s}), %s)}' % (K, K, K, B2): 'full',
        'Binary{Leaf{array{}, %s}, from_slice(self@Parent.slice, %s)}' % (K, B2): 'empty',
    }
    seen = {}
    for p, r in rets:
        s = S(r)
        kind = exp.get(s)
        cs = [(S(w), l) for w, l in p.conds]
        if kind == 'leaf':
            ok = cs == [('self', 'Leaf')]
        elif kind in ('full', 'empty'):
            lt = [(w, l) for w, l in cs if w == 'Lt(len(self@Parent.slice), %s)' % K]
            ok = len(lt) == 1 and ((lt[0][1] == '0') if kind == 'full' else (lt[0][1] != '0'))
        else:
            ok = False
        seen[kind] = seen.get(kind, 0) + 1
        ctx.ob(rid, 'partition:%s' % (kind or 'unexpected'), ok, {'leaf': 'Leaf has no children', 'full': 'len ≥ k: block = first k elements, rest = slice[k..] under bound/2', 'empty': 'len < k: empty block, whole slice under bound/2', None: 'unexpected tree shape'}[kind], fn.where(), cond_str(p.conds) + ' => ' + s)
    ctx.ob(rid, 'partition:complete', seen == {'leaf': 1, 'full': 1, 'empty': 1}, 'as_node has exactly the three cases', fn.where(), str(seen))
    fs = ctx.anchor(fx, "array::Partition::<'a, A>::from_slice")
    rets = sorted((S(r), cond_str(p.conds).split(' & ')[-1]) for k, p, r in explore(ctx, fs) if k == 'RET')
    ctx.ob(rid, 'partition:from_slice', [r[0] for r in rets] == ['Leaf{slice, 1_usize}', 'Parent{slice, bound}'] and rets[0][1] == 'bound.0=2', 'bound = 2 ⇒ Leaf of size 1, otherwise Parent', fs.where(), str(rets))
    # Partition::fold: Parent => r = pop, l = pop, g(l, r); Leaf => f(slice, size)
    # Combiner::unfold: (block, partition) = g(top); elements = f(block, smaller); extend; next = (partition, smaller)
    cf = fx.find(r'^array::Combiner::<A>::unfold$')
    ctx.floor(rid, 'Combiner::unfold', len(cf), 1)
    for f in cf:
        ok = False
        detail = None
        for k, p, r in explore(ctx, f, max_visits=2):
            ext = event_calls(p, 'extend')
            news = [e for e in event_calls(p, 'new') if 'Combiner' in e[1]]
            if ext and news:
                e0 = S(ext[0][2][1])
                n0 = S(news[0][2][0])
                detail = 'extend(%s); next = Combiner::new(%s, %s)' % (e0[:150], n0[:100], S(news[0][2][1])[:80])
                ok = '.0' in e0 and n0.endswith('.1') and 'checked_div2' in S(news[0][2][1])
                break
        ctx.ob(rid, 'combiner:order', ok, 'Combiner takes the elements of the block (left) first, then continues with the rest (right) under bound/2', f.where(), detail)
