"""C13 Jets are callable with documented arity, order and result type."""
import json
import os
import re
from ..core import sv, walk
from ..util import *
from .. import guards
from .layout import S
from . import c01, layout

EXPLANATION = ('Decides (R13.1) the two jet signature tables are total and explicit: every variant of simplicity::jet::Elements has its own returning '
               'arm in jet::source_type and jet::target_type (read from MIR, vec! lowering modelled); (R13.2) the reserved jets and unknown names '
               'are rejected, nothing else (decision table of CallName::analyze); (R13.3) arity and result-type guards of the Jet arm; (R13.4) '
               'argument order preservation: parameter types are zipped with the written arguments in order, the argument tuple is the balanced '
               'product with the first argument leftmost, no reordering operation occurs on the path, and the Jet schema is `args ; jet`; '
               '(R13.5) every jet\'s parameter list and result type equal the reviewed signature table tables/jets.json (a regrouping such as '
               '(u8,u8) ↦ u16 or a permutation keeps the flattened layout and passes the two unit tests, but changes a row), and width families '
               'are cross-checked for deviants. The numerical meaning of jets lives in simplicity-sys and is not decided.')
NOT_DECIDED = ['numerical meaning of jets (C code in simplicity-sys)', 'that the signature table matches upstream documentation beyond the structural unit tests']
ASSUMPTIONS = ['the frozen jet signature table was reviewed against the structural source/target types of simplicity-lang 0.4.0 (the pinned unit tests compare the flattened types)']

VERIF = os.path.dirname(os.path.dirname(os.path.dirname(os.path.abspath(__file__))))
TABLE = os.path.join(VERIF, 'tables', 'jets.json')


def jet_tables(ctx):
    fx = ctx.facts()
    out = {}
    variants = None
    for name in ('jet::source_type', 'jet::target_type'):
        fn = ctx.anchor(fx, name)
        tab = {}
        bad = []
        for kind, p, ret in explore(ctx, fn, max_paths=6000):
            if p is None:
                bad.append('path explosion')
                continue
            if not p.conds:
                bad.append('unconditional path')
                continue
            w, lab = p.conds[0]
            if variants is None and w[0] == 'param':
                pass
            if kind != 'RET':
                bad.append('%s on %s' % (kind, lab[:60]))
                continue
            for v in lab.split('|'):
                tab[v] = S(ret)
        out[name] = (tab, bad)
    # variant universe from the discriminant facts of the switch
    fn = fx.fn('jet::source_type')
    universe = set()
    for b in fn.blocks.values():
        for st in b['stmts']:
            if st['rv']['k'] == 'discr' and st['rv']['adt'].endswith('Elements'):
                universe |= {n for _, n in st['rv']['vars']}
    return out, universe


def family_key(name):
    return re.sub(r'\d+', '#', name)


def r_signatures(ctx, rid='R13.5'):
    """Frozen per-jet signatures (used by C13 and, as the definition of a well-typed jet call, by C04)."""
    fx = ctx.facts()
    ctx.rule(rid, 'per-jet signature (parameter list, result type) equals the reviewed table; width families cross-checked')
    tabs, universe = jet_tables(ctx)
    frozen = json.load(open(TABLE))['jets'] if os.path.exists(TABLE) else {}
    src, tgt = tabs['jet::source_type'][0], tabs['jet::target_type'][0]
    n_bad = 0
    for j in sorted(set(src) | set(frozen)):
        cur = {'params': src.get(j), 'result': tgt.get(j)}
        if frozen.get(j) != cur:
            n_bad += 1
            if n_bad <= 12:
                ctx.ob(rid, 'signature:' + j, False, 'signature of jet %s differs from the reviewed table' % j, fx.fn('jet::source_type').where(), 'now %s; reviewed %s' % (cur, frozen.get(j)))
    ctx.ob(rid, 'signatures', n_bad == 0, '%d jet signatures equal the reviewed table' % len(src), None)
    ctx.floor(rid, 'jet signatures', len(src), 400)


def check(ctx):
    fx = ctx.facts()
    # jet signatures are written with the builtin alias names (Gej, Message64, ...): each has to be recognisable in source text
    from . import c04, c16
    c04.r_grammar_words(ctx, 'R13.7', order=False)
    c04.r_reviewed_grammar(ctx, 'R13.8', roots={'jet', 'ty'})
    c04.group_rule(ctx, 'R13.10', r'^types::(BuiltinAlias::resolve|AliasedType::(resolve|resolve_builtin)(::\{closure#\d+\})?)$', 'expansion of the builtin aliases jet signatures are written with', 2)
    c04.group_rule(ctx, 'R13.9', r'^<(parse::(Call|CallName)|str::JetName) as parse::PestParse>::parse$', 'construction of calls from the parse (name variant, argument order)', 3)
    c16.r_name_tables(ctx, 'R13.6')   # parser table = grammar alternatives (the printer side belongs to C15/C16)
    rid = 'R13.1'
    ctx.rule(rid, 'source_type and target_type are total explicit tables over all Elements variants (no default arm, no panic)')
    tabs, universe = jet_tables(ctx)
    ctx.floor(rid, 'Elements variants', len(universe), 400)
    for name, (tab, bad) in tabs.items():
        ctx.ob(rid, 'total:' + name, set(tab) == universe and not bad, '%s has one returning arm per jet (%d of %d; problems: %s)' % (name, len(tab), len(universe), bad[:3]), fx.fn(name).where())
    # R13.5 frozen signatures
    rid = 'R13.5'
    ctx.rule(rid, 'per-jet signature (parameter list, result type) equals the reviewed table; width families cross-checked')
    frozen = json.load(open(TABLE))['jets'] if os.path.exists(TABLE) else {}
    src, tgt = tabs['jet::source_type'][0], tabs['jet::target_type'][0]
    n_bad = 0
    for j in sorted(set(src) | set(frozen)):
        cur = {'params': src.get(j), 'result': tgt.get(j)}
        if frozen.get(j) != cur:
            n_bad += 1
            if n_bad <= 12:
                ctx.ob(rid, 'signature:' + j, False, 'signature of jet %s differs from the reviewed table' % j, fx.fn('jet::source_type').where(), 'now %s; reviewed %s' % (cur, frozen.get(j)))
    ctx.ob(rid, 'signatures', n_bad == 0, '%d jet signatures equal the reviewed table' % len(src), None)
    ctx.floor(rid, 'jet signatures', len(src), 400)
    # family analysis (informational counts + deviants vs frozen list)
    fams = {}
    for j, sig in src.items():
        fams.setdefault(family_key(j), []).append(j)
    dev = []
    for fk, members in fams.items():
        if len(members) < 2:
            continue
        shapes = {}
        for j in members:
            widths = re.findall(r'\d+', j)
            shp = src[j] + ' -> ' + tgt.get(j, '?')
            shp = re.sub(r'U\d+', 'U#', shp)
            shapes.setdefault(shp, []).append(j)
        if len(shapes) > 1:
            minority = sorted(min(shapes.values(), key=len))
            dev.append((fk, minority))
    frozen_dev = json.load(open(TABLE)).get('family_deviants', []) if os.path.exists(TABLE) else []
    cur_dev = sorted([fk, m] for fk, m in dev)
    ctx.ob(rid, 'families', cur_dev == sorted(frozen_dev), '%d width families with 2+ members; members whose signature shape deviates from their siblings: %d (reviewed list unchanged)' % (sum(1 for m in fams.values() if len(m) > 1), len(cur_dev)), None,
           'now %s' % cur_dev[:6] if cur_dev != sorted(frozen_dev) else None)
    # R13.2 / R13.3 guards
    rid = 'R13.2'
    ctx.rule(rid, 'jet lookup, reserved jets, arity and result guards: decision tables of CallName::analyze and Call::analyze (+ helpers) equal the reviewed table')
    table = guards.load_table()
    guards.compare(ctx, rid, ['<ast::CallName as ast::AbstractSyntaxTree>::analyze', '<ast::Call as ast::AbstractSyntaxTree>::analyze',
                              '<ast::Call as ast::AbstractSyntaxTree>::analyze::check_argument_types', '<ast::Call as ast::AbstractSyntaxTree>::analyze::check_output_type'], table, 'call analysis (jet arms)', guards.GUARD_FIELDS,
                   rowsel=lambda path, r: 'check_' in path or any(c.endswith('=Jet') for c in r['conds'][:3]))
    an = ctx.anchor(fx, '<ast::Call as ast::AbstractSyntaxTree>::analyze')
    for kind, p, ret in explore(ctx, an):
        if kind != 'RET' or not p.conds or p.conds[0][1] != 'Jet':
            continue
        evs = [e for e in event_calls(p)]
        names = [e[1].split('::')[-1] for e in evs if e[1].split('::')[-1] in ('source_type', 'target_type', 'check_argument_types', 'check_output_type', 'analyze_arguments')]
        ctx.ob(rid, 'jet-arm:order', names == ['source_type', 'check_argument_types', 'target_type', 'check_output_type', 'analyze_arguments'], 'Jet arm: parameter types from source_type, arity check, result type from target_type compared with the expected type, then the arguments are analysed', an.where(), str(names))
        ca = [e for e in evs if e[1].endswith('check_argument_types')][0]
        aa = [e for e in evs if e[1].endswith('analyze_arguments')][0]
        st = [e for e in evs if e[1].endswith('jet::source_type')][0]
        same = ca[2][1] == aa[2][1] and calls_in(ca[2][1], 'jet::source_type') and S(st[2][0]).endswith('@Jet.0') and S(ca[2][0]) == 'args(from)' == S(aa[2][0])
        ctx.ob(rid, 'jet-arm:same-types', bool(same), 'arity check and argument analysis use the same parameter type list of this jet and the written arguments', an.where())
    # R13.4 order preservation
    rid = 'R13.4'
    ctx.rule(rid, 'argument order: zip(written args, parameter types) in order; argument tuple = balanced product, first argument leftmost; no reordering call on the path; schema `args ; jet`')
    aa = ctx.anchor(fx, '<ast::Call as ast::AbstractSyntaxTree>::analyze::analyze_arguments')
    rets = [S(r) for k, p, r in explore(ctx, aa) if k == 'RET' and ret_kind(r) in ('ok', 'other')]
    ctx.ob(rid, 'zip-order', len(rets) >= 1 and all('zip(iter(parse_args), iter(args_tys))' in r0 for r0 in rets), 'analyze_arguments zips the written arguments with the parameter types front to back', aa.where(), str(rets)[:300])
    tu = ctx.anchor(fx, 'ast::SingleExpression::tuple')
    rets = [S(r) for k, p, r in explore(ctx, tu) if k == 'RET']
    ctx.ob(rid, 'tuple-args', len(rets) == 1 and re.match(r'SingleExpression\{Tuple\{(\w+)\}, tuple\(collect\(cloned\(map\(iter\(\1\), ty\)\)\)\), span\}$', rets[0]) is not None, 'the argument tuple holds the call arguments unchanged', tu.where(), str(rets)[:200])
    deny = re.compile(r'::(rev|reverse|sort\w*|swap|rotate_left|rotate_right|swap_remove)$')
    chain = ['<ast::Call as ast::AbstractSyntaxTree>::analyze', '<ast::Call as ast::AbstractSyntaxTree>::analyze::analyze_arguments', 'ast::SingleExpression::tuple',
             'compile::<impl ast::Call>::compile', '<parse::Call as parse::PestParse>::parse', 'jet::source_type', 'jet::tuple']
    for path in chain:
        fn = ctx.anchor(fx, path)
        hits = [c for bid, c, t in deep_calls(fx, fn) if deny.search(c)]
        for cl in fx.find('^' + re.escape(path) + r'::\{closure#\d+\}$'):
            hits += [c for bid, c, t in cl.calls() if deny.search(c)]
        ctx.ob(rid, 'no-reorder:' + path, not hits, 'no reordering operation in %s' % path, fn.where(), str(hits))
    c01.schema_rules(ctx, only={'compile::<impl ast::Call>::compile': r'=Jet\b', 'compile::<impl ast::SingleExpression>::compile': r'=(Call|Tuple)\b'})
    layout.r_btree(ctx, 'R13.4t')


if __name__ == '__main__':
    from ..run import Ctx
    ctx = Ctx('C13', 'quick')
    tabs, universe = jet_tables(ctx)
    src, tgt = tabs['jet::source_type'][0], tabs['jet::target_type'][0]
    jets = {j: {'params': src[j], 'result': tgt.get(j)} for j in sorted(src)}
    fams = {}
    for j in src:
        fams.setdefault(family_key(j), []).append(j)
    dev = []
    for fk, members in fams.items():
        if len(members) < 2:
            continue
        shapes = {}
        for j in members:
            shp = re.sub(r'U\d+', 'U#', src[j] + ' -> ' + tgt.get(j, '?'))
            shapes.setdefault(shp, []).append(j)
        if len(shapes) > 1:
            dev.append([fk, sorted(min(shapes.values(), key=len))])
    json.dump({'comment': 'reviewed jet signature table (parameters, result) read from jet::source_type / jet::target_type; generated by python3 -m sa.props.c13', 'jets': jets, 'family_deviants': sorted(dev)}, open(TABLE, 'w'), indent=0, ensure_ascii=False)
    print(len(jets), 'jets;', len(dev), 'families with deviants:', dev[:10])
