"""C14 Debug symbols are behaviour-neutral and point at the right call."""
import re
from ..core import sv, walk
from ..util import *
from ..simpl import *
from ..termx import *
from .layout import S

EXPLANATION = ('Decides (R14.1) neutrality for all programs: the three paths of Scope::with_debug_symbol are reconstructed as Simplicity terms over the '
               'holes args/body and evaluated symbolically; the marker wrapper `(false,args) ; assertl (drop body) cmr` must have exactly the value '
               'and the forced sub-programs of `args ; body`. (R14.2) the span used to track a call in analysis and the span used to look the marker '
               'up in code generation are the same datum, and the set of tracked call kinds equals the set of wrapped kinds with matching '
               'TrackedCallName; (R14.3) marker ids: next_id read by next_id_cmr, incremented once per track_call, no other writer; (R14.4) the '
               'payload type recorded for dbg!/unwrap_left/unwrap_right is the analysed argument type; (R14.5) markers do not depend on layout '
               '(Span::cmr not used on the compile path). Span-to-text slicing and run-time value reconstruction are not decided.')
NOT_DECIDED = ['span -> source text slicing arithmetic (to_slice vs pest columns)', 'Value::reconstruct at run time', 'distinctness of spans of distinct call sites (pest)']
ASSUMPTIONS = ['assertl s cmr behaves as case with a pruned right branch: on a left-tagged input it runs s', 'sha256 tagged hash of distinct counters gives distinct CMRs']

TRACKED = {'Jet': 'Jet', 'UnwrapLeft': 'UnwrapLeft', 'UnwrapRight': 'UnwrapRight', 'Unwrap': 'Unwrap', 'Assert': 'Assert', 'Panic': 'Panic', 'Debug': 'Debug'}


def r_neutral(ctx):
    rid = 'R14.1'
    ctx.rule(rid, 'with_debug_symbol: every path emits a term equivalent to `args ; body` (same value, same forced sub-programs)')
    fx = ctx.facts()
    fn = ctx.anchor(fx, 'compile::Scope::with_debug_symbol')
    ts = fn_terms(ctx, fn, {1: 'args', 2: 'body'})
    ctx.floor(rid, 'paths of with_debug_symbol', len(ts), 3)
    inner = 'args(ρ)'
    outer = 'body(args(ρ))'
    marker = 0
    for conds, t, err, p, ret in ts:
        cs = cond_str(conds)
        flag = [l for w, l in conds if 'include_debug_symbols' in sv(w)]
        kind = 'marker' if (flag and flag[0] != '0') else 'plain'
        if t is None:
            ctx.ob(rid, 'path:%s:%s' % (kind, cs[:80]), False, 'term not reconstructible', fn.where(), err)
            continue
        expect_outcomes(ctx, rid, 'path:%s:%s' % (kind, re.sub(r'\W+', '_', cs)[:80]), 'debug %s path ≡ args ; body' % kind, fn.where(), t, V('ρ'), [((), outer, (inner, outer))])
        if kind == 'marker':
            marker += 1
            # the marker is the CMR looked up for this call's span
            a = [x for x in walk(ret) if is_call(x, 'named::CoreExt::assertl_drop')]
            ok = len(a) == 1 and S(a[0][2][1]) == 'get_cmr(self.call_tracker, span)@Some.0' and a[0][2][0] == ('param', 2, fn.names.get(3, 'body'))
            ctx.ob(rid, 'marker:cmr', ok, 'the hidden CMR of the marker is call_tracker.get_cmr(span) of this call', fn.where(), S(a[0]) if a else None)
    ctx.ob(rid, 'marker-path', marker == 1, 'exactly one path embeds a marker (Some(cmr) and include_debug_symbols)', fn.where())


def r_same_key(ctx):
    rid = 'R14.2'
    ctx.rule(rid, 'tracking key = lookup key: track_call(parse call span, kind) in analysis; with_debug_symbol(.., self) in compile with Call.span copied from the same parse call; tracked kinds = wrapped kinds')
    fx = ctx.facts()
    an = ctx.anchor(fx, '<ast::Call as ast::AbstractSyntaxTree>::analyze')
    tracked = {}
    for kind, p, ret in explore(ctx, an, follow_break=False):
        if kind != 'RET' or ret_kind(ret) != 'ok':
            continue
        arm = p.conds[0][1] if p.conds else '?'
        lit = [x for x in walk(ret) if x[0] == 'agg' and x[1] == 'adt:ast::Call::Call']
        span_ok = bool(lit) and lit[0][2][2] == ('param', 0, an.names.get(1, 'from'))
        ctx.ob(rid, 'call-span:' + arm, span_ok, 'Call.span is the span of the parse call', an.where(), S(lit[0][2][2]) if lit else None)
        tcs = event_calls(p, 'ast::Scope::track_call')
        if tcs:
            e = tcs[0]
            name = e[2][2]
            vname = name[1].split('::')[-1] if name[0] == 'agg' else S(name)
            ok = len(tcs) == 1 and e[2][1] == ('param', 0, an.names.get(1, 'from'))
            ctx.ob(rid, 'track:' + arm, ok, 'track_call is keyed by the span of the parse call', an.where(e[3]), S(e[2][1]))
            tracked[arm] = (vname, name)
    wrapped = set()
    cp = ctx.anchor(fx, 'compile::<impl ast::Call>::compile')
    for kind, p, ret in explore(ctx, cp):
        if kind != 'RET':
            continue
        arm = [l for w, l in p.conds if 'name(self)' in sv(w)]
        arm = arm[0] if arm else '?'
        wd = event_calls(p, 'compile::Scope::with_debug_symbol')
        if wd:
            for a in arm.split('|'):
                wrapped.add(a)
            e = wd[0]
            ok = len(wd) == 1 and e[2][3] == ('param', 0, cp.names.get(1, 'self')) and is_call(strip_try(ret), 'compile::Scope::with_debug_symbol')
            ok = ok and is_call(e[2][1], 'compile::<impl ast::SingleExpression>::compile')
            ctx.ob(rid, 'wrap:' + arm, ok, 'with_debug_symbol(compiled args, body, self): marker looked up with this call\'s span, result returned', cp.where(e[3]), S(e[2][3]))
    ctx.ob(rid, 'kinds', set(tracked) == wrapped == set(TRACKED), 'tracked kinds %s = wrapped kinds %s = %s' % (sorted(tracked), sorted(wrapped), sorted(TRACKED)), an.where())
    for arm, (vname, name) in sorted(tracked.items()):
        ctx.ob(rid, 'kind-name:' + arm, TRACKED.get(arm) == vname, 'CallName::%s is tracked as TrackedCallName::%s' % (arm, vname), an.where())
    # R14.4 payload types
    rid4 = 'R14.4'
    ctx.rule(rid4, 'payload type recorded for dbg!/unwrap_left/unwrap_right = the type the argument was analysed at')
    for kind, p, ret in explore(ctx, an):
        if kind != 'RET' or ret_kind(ret) != 'ok' or not p.conds:
            continue
        arm = p.conds[0][1]
        if arm not in ('UnwrapLeft', 'UnwrapRight', 'Debug'):
            continue
        tcs = event_calls(p, 'ast::Scope::track_call')
        aa = event_calls(p, 'analyze_arguments')
        ok = len(tcs) == 1 and len(aa) == 1
        detail = None
        if ok:
            payload = tcs[0][2][2][2][0]
            tys = aa[0][2][1]
            ok = tys[0] == 'agg' and tys[1] == 'array' and len(tys[2]) == 1 and payload == tys[2][0]
            detail = 'tracked %s; argument analysed at %s' % (S(payload), S(tys))
        ctx.ob(rid4, 'payload:' + arm, ok, 'TrackedCallName::%s carries the analysed argument type' % arm, an.where(), detail)


def r_ids(ctx):
    rid = 'R14.3'
    ctx.rule(rid, 'fresh marker per tracked call: cmr = next_id_cmr(self) (function of next_id), map.insert(span, (cmr, name)), next_id += 1; next_id has no other writer')
    fx = ctx.facts()
    tc = ctx.anchor(fx, 'debug::CallTracker::track_call')
    paths = [(k, p, r) for k, p, r in explore(ctx, tc) if k == 'RET']
    ok = len(paths) == 1
    if ok:
        p = paths[0][1]
        ins = [e for e in event_calls(p, 'insert') if 'HashMap' in e[1]]
        nid = event_calls(p, 'debug::CallTracker::next_id_cmr')
        ok = len(ins) == 1 and len(nid) == 1 and ins[0][2][1] == ('param', 1, tc.names.get(2, 'span'))
        if ok:
            val = ins[0][2][2]
            ok = val[0] == 'agg' and val[1] == 'tuple' and is_call(val[2][0], 'debug::CallTracker::next_id_cmr') and val[2][1] == ('param', 2, tc.names.get(3, 'name'))
        incs = [v for k, v in p.env.items() if isinstance(k, tuple) and any(pp.endswith(':next_id') for pp in k[1])]
        ok = ok and len(incs) == 1 and S(incs[0]) == 'AddWithOverflow(self.next_id, 1_u32).0'
    ctx.ob(rid, 'track_call:shape', ok, 'track_call inserts (next_id_cmr(), name) under the span and increments next_id by one', tc.where())
    nc = ctx.anchor(fx, 'debug::CallTracker::next_id_cmr')
    reads = False
    for k, p, r in explore(ctx, nc):
        for e in event_calls(p, 'to_be_bytes'):
            reads = reads or S(e[2][0]) == 'self.next_id'
    ctx.ob(rid, 'next_id_cmr:input', reads, 'the marker CMR hashes the current next_id', nc.where())
    writers = set()
    for path, f in fx.F.items():
        if f.macro:
            continue
        for b in f.blocks.values():
            if b['cleanup']:
                continue
            for st in b['stmts']:
                if any(pp.endswith(':next_id') for pp in st['lhs']['p']):
                    writers.add(path)
    ctx.ob(rid, 'next_id:writers', writers == {'debug::CallTracker::track_call'}, 'next_id is written only by track_call (found %s)' % sorted(writers))
    gc = ctx.anchor(fx, 'debug::CallTracker::get_cmr')
    rets = [S(r) for k, p, r in explore(ctx, gc) if k == 'RET']
    ctx.ob(rid, 'get_cmr', len(rets) == 1 and rets[0].startswith('map(get(self.map, span)'), 'get_cmr looks the span up in the same map', gc.where(), str(rets))
    # R14.5 markers independent of layout: Span::cmr unused by compile/analysis
    rid5 = 'R14.5'
    ctx.rule(rid5, 'markers do not depend on source layout: error::Span::cmr has no caller in the crate')
    sites = fx.callers_of('error::Span::cmr')
    ctx.ob(rid5, 'span-cmr:unused', not sites, 'Span::cmr is not called (%s)' % [f.path for f, _, _, _ in sites])
    ctx.ob(rid5, 'span-cmr:selftest', 'error::Span::cmr' in fx.F, 'the function the rule is about exists (rule is not vacuous)')
    # debug symbols are built from the tracker of this program with this file
    ds = ctx.anchor(fx, 'ast::Program::debug_symbols')
    rets = [S(r) for k, p, r in explore(ctx, ds) if k == 'RET']
    ctx.ob(rid, 'debug_symbols:source', len(rets) == 1 and rets[0] == 'with_file(self.call_tracker, file)', 'Program::debug_symbols = call_tracker.with_file(file)', ds.where(), str(rets))


def r_map_value(ctx):
    rid = 'R14.6'
    ctx.rule(rid, 'TrackedCall::map_value reconstructs the run-time value at the type recorded for that call kind and keeps the call text')
    fx = ctx.facts()
    fn = ctx.anchor(fx, 'debug::TrackedCall::map_value')
    got = {}
    for kind, p, ret in explore(ctx, fn, follow_break=False):
        if kind != 'RET':
            continue
        lab = [l for w, l in p.conds if 'name(self)' in S(w)]
        if lab:
            got[lab[0]] = S(ret)
    exp_sub = {'UnwrapLeft': ('reconstruct(value, name(self)@UnwrapLeft.0)', 'UnwrapLeft'), 'UnwrapRight': ('reconstruct(value, name(self)@UnwrapRight.0)', 'UnwrapRight'),
               'Debug': ('reconstruct(value, name(self)@Debug.0)', 'Right')}
    for k, (sub, ctor) in exp_sub.items():
        v = got.get(k, '')
        ctx.ob(rid, 'map_value:' + k, sub in v and ctor in v, '%s: value reconstructed at the tracked type and wrapped as %s' % (k, ctor), fn.where(), v[:300])
    for k, ctor in (('Assert', 'Assert{}'), ('Panic', 'Panic{}'), ('Jet', 'Jet{}'), ('Unwrap', 'Unwrap{}')):
        v = got.get(k, '')
        ctx.ob(rid, 'map_value:' + k, ctor in v and 'self.text' in v, '%s maps to FallibleCallName::%s with the call text' % (k, ctor), fn.where(), v[:200])


def r_symbols(ctx):
    rid = 'R14.7'
    ctx.rule(rid, 'debug symbols: with_file inserts, for every tracked (span, (cmr, name)), the text span.to_slice(file) and the name under that cmr')
    fx = ctx.facts()
    wf = ctx.anchor(fx, 'debug::CallTracker::with_file')
    ok = False
    detail = None
    for k, p, r in explore(ctx, wf, max_visits=2):
        ins = event_calls(p, 'debug::DebugSymbols::insert')
        if ins:
            a = ins[0][2]
            item = 'next(into_iter(self.map))@Some.0'
            detail = [S(x) for x in a[1:]]
            ok = detail == [item + '.0', item + '.1.0', item + '.1.1', 'file']
            break
    ctx.ob(rid, 'with_file', ok, 'with_file: insert(span, cmr, name, file) with the three components of the same map entry', wf.where(), str(detail))
    di = ctx.anchor(fx, 'debug::DebugSymbols::insert')
    ok = False
    for k, p, r in explore(ctx, di):
        if k != 'RET':
            continue
        ts = event_calls(p, 'error::Span::to_slice')
        ins = [e for e in event_calls(p, 'insert') if 'HashMap' in e[1]]
        ok = len(ts) == 1 and S(ts[0][2][0]) == 'span' and S(ts[0][2][1]) == 'file' and len(ins) == 1 and S(ins[0][2][1]) == 'cmr'
        if ok:
            val = ins[0][2][2]
            ok = val[0] == 'agg' and val[1].endswith('TrackedCall') and S(val[2][1]) == 'name' and bool(calls_in(val[2][0], 'error::Span::to_slice')) or (ok and 'name' in S(val))
    ctx.ob(rid, 'insert', ok, 'DebugSymbols::insert stores TrackedCall{text of span.to_slice(file), name} under the given cmr', di.where())


def check(ctx):
    from . import c04
    c04.group_rule(ctx, 'R14.8', r'^(debug::.*|error::Span::to_slice)$', 'debug-symbol plumbing (tracking, marker ids, text extraction by Span::to_slice, value mapping): full call traces', 11)
    r_symbols(ctx)
    r_neutral(ctx)
    r_same_key(ctx)
    r_ids(ctx)
    from . import c07
    c07.r_reconstruct(ctx)
    c04.group_rule(ctx, 'R14.9', r"^(<value::Destructor<'_> as miniscript::iter::TreeLike>::as_node|value::destruct::\w+(::\{closure#\d+\})*|array::(Unfolder|Combiner)::<A>::unfold)$", 'value reconstruction (what dbg! / unwrap payloads are rebuilt with): destructor tree and destructors', 8)
    from . import c20
    c20.r_conversions(ctx)   # the span a call is tracked and looked up under
    c07.r_uint_tables(ctx, only={'bit_width', 'from_bit_width', 'structural-type', 'as_integer:shifts'})   # destruct::as_integer shifts / widths used when a dbg! value is rebuilt
    r_map_value(ctx)
