"""C16 Printing a parsed program and re-parsing it changes nothing."""
import re
from ..core import sv, walk, Explorer
from ..util import *
from ..printer import *
from ..grammar import Grammar
from .layout import S

EXPLANATION = ('Round-trip equality of trees is behavioural and not decided. Decided: (R16.1) every literal piece the parse-tree, pattern and type '
               'printers write (decoded from the compiled format templates in MIR) is a concatenation of grammar literals; (R16.2) variant '
               'coverage and pairing: every variant of the parse-tree enums (SingleExpressionInner incl. Either/Option cases, CallName, '
               'MatchPattern, Item, Statement, ExpressionInner) is constructed by a parser arm from a specific grammar rule and printed by a '
               'printer arm whose literal pieces are literals of that same rule (so `Left(`/`Right(`, `unwrap_left::<`/`unwrap_right::<` … cannot '
               'be exchanged), no variant is left to a wildcard; (R16.3) separators: the printers write `, ` between children and close with the '
               'rule\'s closing literal; the singleton tuple prints its trailing comma. Acceptance and run-time equivalence of the printed '
               'program follow only if the trees are equal.')
NOT_DECIDED = ['tree equality after print/parse (behavioural)', 'pre-order state machine on arbitrary nestings', 'layout/whitespace choices of the printer vs implicit WHITESPACE']
ASSUMPTIONS = ['format templates containing only `{}` placeholders (decoded); std Display of integers and strings']

PRINTERS = [r"^<parse::(Program|Item|TypeAlias|Function|FunctionParam|ExprTree<'_>|CallName|MatchPattern|Expression|Statement|Assignment|SingleExpression|Call|Match|ModuleProgram|ModuleItem|Module|ModuleAssignment) as std::fmt::Display>::fmt$",
            r'^<pattern::Pattern as std::fmt::Display>::fmt$', r'^<types::(AliasedType|ResolvedType|UIntType|BuiltinAlias) as std::fmt::Display>::fmt$']


def printer_fns(fx, pats=PRINTERS):
    out = []
    for p, f in fx.F.items():
        if f.macro:
            continue
        if any(re.search(r, p) for r in pats):
            out.append(f)
    return out


def r_tokens(ctx, rid, pats=PRINTERS, floor=12):
    ctx.rule(rid, 'printer tokens are grammar tokens: every literal piece written by a printer is a concatenation of grammar literals (whitespace ignored)')
    fx = ctx.facts()
    lits = all_literals(fx.grammar)
    n = 0
    npieces = 0
    for fn in printer_fns(fx, pats):
        n += 1
        bad = set()
        pieces = set()
        for kind, p, ret in explore(ctx, fn, max_visits=1):
            if p is None:
                continue
            for pc in path_pieces(p):
                if pc is None:
                    continue
                pieces.add(pc)
                if pc == '<undecoded>' or not segmentable(pc, lits):
                    bad.add(pc)
        npieces += len(pieces)
        ctx.ob(rid, 'tokens:' + fn.path, not bad, '%d literal pieces %s all decompose into grammar literals' % (len(pieces), sorted(pieces)[:12]), fn.where(), 'not grammar tokens: %s' % sorted(bad) if bad else None)
    ctx.floor(rid, 'printer functions', n, floor)
    ctx.ob(rid, 'selftest', segmentable('unwrap_left::<', lits) and segmentable(',\n}', lits) and not segmentable('Righ(', lits) and not segmentable('list[', lits), 'segmentation accepts `unwrap_left::<` and `,\\n}` and rejects `Righ(` and `list[`')
    return npieces


def variant_key(labels):
    labs = [l for l in labels]
    return '.'.join(labs)


def parser_map(ctx, path, enum, arg_rule_of='inner_pair'):
    """{variant key: set of grammar rules} from the parser function: which rule arm constructs which variant."""
    fx = ctx.facts()
    fn = ctx.anchor(fx, path)
    out = {}
    for kind, p, ret in explore(ctx, fn):
        if kind != 'RET' or ret_kind(ret) not in ('ok', 'other'):
            continue
        rules = [l for w, l in p.conds if is_call(w) and w[1].endswith('::as_rule')]
        if not rules:
            continue
        rule = rules[-1] if enum != 'parse::SingleExpressionInner' else rules[1] if len(rules) > 1 else rules[-1]
        vs = []
        for x in walk(ret):
            if x[0] == 'agg' and x[1].startswith('adt:%s::' % enum):
                v = x[1].split('::')[-1]
                sub = [y[1].split('::')[-1] for y in walk(x) if y[0] == 'agg' and (y[1].startswith('adt:either::Either::') or y[1].startswith('adt:std::option::Option::'))]
                vs.append(v + ('.' + sub[0] if sub and v in ('Either', 'Option') else ''))
            if x[0] == 'fn' and x[1].startswith(enum + '::'):
                v = x[1].split('::')[-1]
                subs = [y[1].split('::')[-1] for y in walk(ret) if y[0] == 'fn' and (y[1] in ('either::Left', 'either::Right', 'either::Either::Left', 'either::Either::Right', 'std::option::Option::Some'))]
                vs.append(v + ('.' + subs[0] if subs and v in ('Either', 'Option') else ''))
        for v in vs:
            if v == 'Option' and 'none_expr' in rule.split('|'):
                v = 'Option.None'
            for r in rule.split('|'):
                out.setdefault(v, set()).add(r)
    return out


def printer_map(ctx, path, top=None):
    """{variant key: set of literal pieces} from a printer function."""
    fx = ctx.facts()
    fn = ctx.anchor(fx, path)
    out = {}
    universe = {}
    for b in fn.blocks.values():
        for st in b['stmts']:
            if st['rv']['k'] == 'discr':
                universe.setdefault(st['rv']['adt'], set()).update(n for _, n in st['rv']['vars'])
    for kind, p, ret in explore(ctx, fn, max_visits=1):
        if p is None:
            continue
        labs = []
        for w, l in p.conds:
            if isinstance(w, tuple) and w[0] in ('param', 'field', 'call', 'down') and not re.match(r'^(!?\d+(\|\d+)*)$', l) and l not in ('Continue', 'Break') and not (is_call(w) and w[1].endswith('::next')):
                labs.append(l)
        if top is not None:
            if not labs or labs[0] != top:
                continue
            labs = labs[1:]
        if not labs:
            continue
        key = '.'.join(labs[:2]) if labs[0] in ('Either', 'Option') else labs[0]
        out.setdefault(key, set()).update(pc for pc in path_pieces(p) if pc)
    return out, universe


PAIRS = [
    # (enum, parser fn, printer fn, printer top label, extra literals allowed in the printer arm)
    ('parse::SingleExpressionInner', '<parse::SingleExpression as parse::PestParse>::parse', "<parse::ExprTree<'_> as std::fmt::Display>::fmt", 'Single'),
    ('parse::CallName', '<parse::CallName as parse::PestParse>::parse', '<parse::CallName as std::fmt::Display>::fmt', None),
    ('parse::MatchPattern', '<parse::MatchPattern as parse::PestParse>::parse', '<parse::MatchPattern as std::fmt::Display>::fmt', None),
]


def r_variants(ctx, rid):
    ctx.rule(rid, 'variant pairing: each parse-tree variant is built from one grammar rule and printed with literal pieces of that rule; every variant is covered on both sides')
    fx = ctx.facts()
    g = Grammar(fx.grammar)
    n = 0
    for enum, pf, df, top in PAIRS:
        pm = parser_map(ctx, pf, enum)
        dm, universe = printer_map(ctx, df, top)
        variants = universe.get(enum, set())
        ctx.ob(rid, 'coverage:parser:' + enum, bool(variants) and {k.split('.')[0] for k in pm} >= variants, '%s: every variant %s is constructed by a parser arm (found %s)' % (enum, sorted(variants), sorted(pm)), fx.fn(pf).where())
        ctx.ob(rid, 'coverage:printer:' + enum, bool(variants) and {k.split('.')[0] for k in dm} >= {v for v in variants}, '%s: every variant has its own printer arm (found %s)' % (enum, sorted(dm)), fx.fn(df).where())
        for key in sorted(set(pm) | set(dm)):
            rules = pm.get(key, set())
            pieces = dm.get(key, set())
            if not rules or key not in dm:
                continue
            n += 1
            lits = set()
            for r in rules:
                if r in g.G:
                    lits |= g.literals(r) if g.G[r]['ty'] != 'atomic' or True else set()
            # shallow literals only: those of the rule itself, not of nested expressions
            shallow = set()
            for r in rules:
                if r in g.G:
                    shallow |= shallow_literals(g, r)
            if enum == 'parse::SingleExpressionInner' and key == 'Expression':
                shallow |= shallow_literals(g, 'single_expression')   # `"(" ~ expression ~ ")"` is written in the parent rule
            bad = [pc for pc in pieces if not segmentable(pc, shallow | {','})]
            ctx.ob(rid, 'pair:%s:%s' % (enum.split('::')[-1], key), not bad, '%s::%s is parsed from rule %s and printed with %s ⊆ literals of that rule %s' % (enum.split('::')[-1], key, sorted(rules), sorted(pieces), sorted(shallow)[:8]), fx.fn(df).where(), 'pieces not from the rule: %s' % bad if bad else None)
    ctx.floor(rid, 'variant/rule pairs', n, 30)


def shallow_literals(g, rule, depth=0):
    """Literals written directly in a rule (through silent/atomic helper rules such as keywords), not those of nested non-terminals."""
    out = set()

    def rec(e, d):
        k = e['k']
        if k in ('str', 'insens'):
            out.add(e['v'])
        elif k == 'ident':
            v = e['v']
            if v in g.G and (g.G[v]['ty'] in ('atomic', 'silent') or v.endswith('_keyword')) and d < 3 and v not in ('WHITESPACE', 'COMMENT') and not g.ident_shape(v):
                rec(g.G[v]['e'], d + 1)
        elif k in ('seq', 'choice'):
            rec(e['a'], d)
            rec(e['b'], d)
        elif k in ('opt', 'rep', 'rep1'):
            rec(e['e'], d)
    rec(g.G[rule]['e'], 0)
    return out


def r_separators(ctx, rid):
    ctx.rule(rid, 'separators and brackets of n-ary forms: first visit opens, middle visits write `, `, last visit closes with the bracket of the same form; the singleton tuple prints its trailing comma')
    fx = ctx.facts()
    fn = ctx.anchor(fx, "<parse::ExprTree<'_> as std::fmt::Display>::fmt")
    forms = {'Tuple': ('(', ')'), 'Array': ('[', ']'), 'List': ('list![', ']')}
    got = {k: set() for k in forms}
    for kind, p, ret in explore(ctx, fn, max_visits=1):
        labs = [l for w, l in p.conds]
        for k in forms:
            if 'Single' in labs and k in labs:
                got[k].add(tuple(pc for pc in path_pieces(p) if pc))
    for k, (o, c) in forms.items():
        exp = {(), (o,), (o, c), (', ',), (', ', c), (c,)}
        ctx.ob(rid, 'nary:' + k, got[k] == exp, '%s printer writes exactly the piece sequences %s' % (k, sorted(exp)), fn.where(), str(sorted(got[k])))
    # singleton tuple: `!is_complete || len == 1` controls the comma
    ok = False
    for kind, p, ret in explore(ctx, fn, max_visits=1):
        labs = [l for w, l in p.conds]
        if 'Single' in labs and 'Tuple' in labs:
            cs = [(S(w), l) for w, l in p.conds]
            if any('len(' in w and 'Eq' in w and l != '0' for w, l in cs) and ', ' in path_pieces(p):
                ok = True
    ctx.ob(rid, 'tuple:singleton-comma', ok, 'a 1-tuple prints `(x, )` (comma also when complete and len == 1), which the grammar requires to tell it from a parenthesised expression', fn.where())


FORMS = [
    # (printer fn, path label (None = whole function), grammar rules whose own literals may be written)
    ("<parse::ExprTree<'_> as std::fmt::Display>::fmt", 'Match', ['match_expr', 'match_arm']),
    ("<parse::ExprTree<'_> as std::fmt::Display>::fmt", 'Call', ['call_args']),
    ("<parse::ExprTree<'_> as std::fmt::Display>::fmt", 'Block', ['block_expression']),
    ("<parse::ExprTree<'_> as std::fmt::Display>::fmt", 'Assignment', ['assignment']),
    ("<parse::ExprTree<'_> as std::fmt::Display>::fmt", 'Statement', ['block_expression']),
    ('<parse::Function as std::fmt::Display>::fmt', None, ['function', 'function_params', 'function_return']),
    ('<parse::FunctionParam as std::fmt::Display>::fmt', None, ['typed_identifier']),
    ('<parse::TypeAlias as std::fmt::Display>::fmt', None, ['type_alias']),
    ('<pattern::Pattern as std::fmt::Display>::fmt', None, ['tuple_pattern', 'array_pattern', 'ignore_pattern']),
]


def r_forms(ctx, rid):
    ctx.rule(rid, 'structural forms (match, call, block, let, function, alias, patterns) are printed with the literals of their own grammar rules')
    fx = ctx.facts()
    g = Grammar(fx.grammar)
    for path, label, rules in FORMS:
        fn = ctx.anchor(fx, path)
        pieces = set()
        for kind, p, ret in explore(ctx, fn, max_visits=1):
            if p is None:
                continue
            labs = [l for w, l in p.conds]
            if label is None or label in labs:
                if label is not None and 'Single' in labs:
                    continue
                pieces |= {pc for pc in path_pieces(p) if pc}
        lits = set()
        for r in rules:
            lits |= shallow_literals(g, r)
        bad = [pc for pc in pieces if not segmentable(pc, lits)]
        ctx.ob(rid, 'form:%s:%s' % (path.split(' as ')[0].lstrip('<'), label or '*'), bool(pieces) and not bad, 'pieces %s ⊆ literals of %s' % (sorted(pieces), rules), fn.where(), 'not literals of the rule: %s (rule literals %s)' % (bad, sorted(lits)) if bad else None)


def r_name_tables(ctx, rid, floor=2, printer=True):
    """Closed name tables (builtin aliases, integer type names): the printer's variant→text table and the parser's
    text→variant table are inverse to each other (first match wins in the parser), and the texts are exactly the
    alternatives of the grammar rule the parser is registered for."""
    import re
    from .. import guards
    ctx.rule(rid, 'closed name tables: Display (variant → text) and the parser (text → variant, first match wins) are inverse; the texts are the alternatives of the parser\'s grammar rule')
    fx = ctx.facts()
    g = Grammar(fx.grammar)
    n = 0
    for path, fn in sorted(fx.F.items()):
        m = re.match(r'^<(types::\w+) as std::fmt::Display>::fmt$', path)
        if not m or fn.macro:
            continue
        ty = m.group(1)
        rows = guards.decision_table(ctx, fn, 3, True, plain=True)
        disp = {}
        for r in rows:
            # one arm per variant writing one literal: `self=V` and write_str(f, "text") as returned value or as the tested write
            sc = [c for c in r['conds'] if c.startswith('self=')]
            texts = set(re.findall(r'write_str\(f, "([^"]*)"\)', ' '.join(r['conds']) + ' ' + (r['value'] or '')))
            others = [c for c in r['conds'] if not c.startswith('self=') and 'write_str(f, "' not in c]
            if len(sc) == 1 and len(texts) == 1 and not others:
                for v in sc[0][5:].split('|'):
                    if disp.get(v, list(texts)[0]) != list(texts)[0]:
                        disp = None
                        break
                    disp[v] = list(texts)[0]
                if disp is None:
                    break
            else:
                disp = None
                break
        if not disp:
            continue
        # the parser side: FromStr::from_str or PestParse::parse of the same type, a chain of string comparisons
        parser = None
        for cand in ('<%s as std::str::FromStr>::from_str' % ty, '<%s as parse::PestParse>::parse' % ty):
            if cand in fx.F:
                prow = guards.decision_table(ctx, fx.F[cand], 3, True, plain=True)
                if any(c.startswith('eq<str>("') for r in prow for c in r['conds']):
                    parser = (cand, prow)
                    break
        if parser is None:
            ctx.ob(rid, 'table:%s' % ty, False, 'a text→variant parser table exists for the printed names', fn.where(), 'no FromStr/PestParse string table found')
            continue
        n += 1
        cand, prow = parser
        parse = {}
        for r in prow:
            pos = [c for c in r['conds'] if c.startswith('eq<str>("') and c.endswith('=T')]
            mv = re.match(r'^Ok\{(\w+)\{\}\}$', r['value'] or '')
            if len(pos) == 1 and mv:
                lit = re.match(r'^eq<str>\("([^"]*)", ', pos[0]).group(1)
                neg = [re.match(r'^eq<str>\("([^"]*)", ', c).group(1) for c in r['conds'] if c.startswith('eq<str>("') and c.endswith('=F')]
                if lit not in neg:
                    parse.setdefault(lit, mv.group(1))
        bad = ['%s prints "%s" which parses as %s' % (v, t, parse.get(t)) for v, t in sorted(disp.items()) if parse.get(t) != v]
        bad += ['"%s" parses as %s which prints "%s"' % (t, v, disp.get(v)) for t, v in sorted(parse.items()) if disp.get(v) != t]
        if printer:
            ctx.ob(rid, 'inverse:%s' % ty, not bad, '%d variants: parse(print(v)) = v and print(parse(t)) = t' % len(disp), fn.where(), '; '.join(bad[:4]) if bad else None)
        # grammar alternatives
        rulefn = fx.F.get('<%s as parse::PestParse>::RULE' % ty)
        rule = None
        if rulefn is not None:
            for kind, pth, ret in explore(ctx, rulefn, max_visits=1):
                mm = re.search(r'(\w+)\{\}', sv(ret)) if ret is not None else None
                if mm:
                    rule = mm.group(1)
        if rule is None or rule not in g.G:
            ctx.ob(rid, 'grammar:%s' % ty, False, 'grammar rule of the parser is known', fn.where(), 'RULE constant of %s not resolved (%s)' % (ty, rule))
            continue
        lits = set()
        for ls, guard in g.kw_parts(g.G[rule]['e'], set(g.ident_rules())):
            lits |= set(ls)
        ctx.ob(rid, 'grammar:%s' % ty, lits == set(parse) and (not printer or lits == set(disp.values())), 'alternatives of rule %s = parser texts = printed texts (%d)' % (rule, len(lits)), fn.where(),
               'grammar-only %s; parser-only %s; printer-only %s' % (sorted(lits - set(parse)), sorted(set(parse) - lits), sorted(set(disp.values()) - lits)))
    ctx.floor(rid, 'name tables', n, floor)


def r_number_tokens(ctx, rid, floor=3):
    """Numbers are printed through core's Display of usize / the unsigned carriers: canonical decimal numerals
    D = 0 | [1-9][0-9]*.  Every digit token of the grammar (array size, list bound, decimal literal) has to accept all of D,
    otherwise a printed size, bound or literal does not parse back."""
    ctx.rule(rid, 'number tokens: each digit-class token rule of the grammar (array_size, list_bound, dec_literal) accepts every canonical decimal numeral 0 | [1-9][0-9]* (what core prints for the sizes, bounds and integers)')
    fx = ctx.facts()
    g = Grammar(fx.grammar)
    toks = g.digit_tokens()
    for name, shape, ok, why in toks:
        ctx.ob(rid, 'digits:' + name, ok, 'L(%s) = %s ⊇ canonical decimals' % (name, shape), 'src/minimal.pest (%s)' % name, why)
    ctx.floor(rid, 'digit token rules', len(toks), floor)
    for need in ('array_size', 'list_bound', 'dec_literal'):
        ctx.ob(rid, 'present:' + need, need in {t[0] for t in toks}, 'rule %s is a digit-class token decided by this rule' % need, 'src/minimal.pest (%s)' % need,
               'rule %s is no longer of a decided shape (C+ / C1 ~ C2*)' % need)


PROGRAM_TREE_MANUAL_EQ = ('Program', 'Function', 'Assignment', 'Call', 'TypeAlias', 'Expression', 'SingleExpression', 'Match')
PROGRAM_TREE_DERIVED_EQ = ('FunctionParam', 'MatchArm', 'CallName', 'ExpressionInner', 'Item', 'MatchPattern', 'SingleExpressionInner', 'Statement')


def _fields_read(fn):
    out = set()
    for b in fn.blocks.values():
        if b['cleanup']:
            continue
        pls = []
        for st in b['stmts']:
            pls.append(st['lhs'])
            rv = st['rv']
            for key in ('pl',):
                if isinstance(rv.get(key), dict):
                    pls.append(rv[key])
            for key in ('o', 'a', 'b'):
                o = rv.get(key)
                if isinstance(o, dict) and isinstance(o.get('pl'), dict):
                    pls.append(o['pl'])
            for o in rv.get('ops', []) or []:
                if isinstance(o, dict) and isinstance(o.get('pl'), dict):
                    pls.append(o['pl'])
        t = b['term']
        for o in t.get('args', []) or []:
            if isinstance(o, dict) and isinstance(o.get('pl'), dict):
                pls.append(o['pl'])
        for pl in pls:
            for q in pl['p']:
                if ':' in q:
                    out.add(q.split(':', 1)[1])
    return out


def r_tree_equality(ctx, rid):
    """"An equal parse tree": equality of program parse trees is about content.  The nodes that carry a source span compare
    their content fields only (impl_eq_hash!); a derived PartialEq on such a node would compare positions, and the printed
    program, laid out differently, would never be equal to the original."""
    ctx.rule(rid, 'parse-tree equality ignores source positions: the span-carrying nodes of the program tree have the hand-written content equality, no equality of a program-tree node reads a `span` field')
    fx = ctx.facts()
    n = 0
    for t in PROGRAM_TREE_MANUAL_EQ + PROGRAM_TREE_DERIVED_EQ:
        fn = fx.F.get('<parse::%s as std::cmp::PartialEq>::eq' % t)
        if fn is None:
            ctx.ob(rid, 'eq:' + t, False, 'PartialEq::eq of parse::%s is available' % t, None, 'not found')
            continue
        n += 1
        fields = _fields_read(fn)
        calls = {c.split('::')[-1] for bid, c, t0 in fn.calls()}
        manual = t in PROGRAM_TREE_MANUAL_EQ
        ok = 'span' not in fields and 'span' not in calls and (not manual or not fn.macro)
        ctx.ob(rid, 'eq:' + t, ok, 'parse::%s == compares %s, not positions' % (t, 'its content accessors (hand-written)' if manual else 'its fields %s' % sorted(fields)), fn.where(),
               'derived equality on a node with a span' if manual and fn.macro else ('reads span' if not ok else None))
    ctx.floor(rid, 'program-tree equalities', n, 12)


def check(ctx):
    from . import c04
    c04.group_rule(ctx, 'R16.5', r"^(<parse::ExprTree<'_> as std::fmt::Display>::fmt|<pattern::Pattern as std::fmt::Display>::fmt|types::TypeInner::<A>::display|<(parse|str)::\w+ as std::fmt::Display>::fmt|<types::(AliasedType|BuiltinAlias|UIntType) as std::fmt::Display>::fmt|<num::(NonZeroPow2Usize|Pow2Usize) as std::fmt::Display>::fmt)$", 'parse-tree, pattern, name and type printers: every piece and displayed component in order', 25)
    r_forms(ctx, 'R16.4')
    r_tokens(ctx, 'R16.1')
    r_variants(ctx, 'R16.2')
    r_separators(ctx, 'R16.3')
    r_name_tables(ctx, 'R16.6')
    r_tree_equality(ctx, 'R16.11')
    r_number_tokens(ctx, 'R16.7')
    c04.r_reviewed_grammar(ctx, 'R16.8', roots={'program'})
    c04.group_rule(ctx, 'R16.10', r"^(<(parse::ExprTree<'_>|&pattern::Pattern|&types::AliasedType) as miniscript::iter::TreeLike>::as_node|parse::MatchPattern::as_\w+|types::AliasedType::as_(alias|builtin))$", 'children of parse-tree, pattern and type nodes in the order the printers visit them', 4)
    c04.group_rule(ctx, 'R16.9', c04.PARSERS, 'parse-tree construction (every PestParse::parse): which child becomes which field, in which order', 30)
