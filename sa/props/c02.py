"""C02 What satisfy returns spends the committed CMR."""
import re
from ..core import sv, walk
from ..util import *
from . import satisfy

EXPLANATION = ('Decides simfony-side structural conditions of C02: (R02.1) on every success path of satisfy_with_env the redeem node comes from a '
               'finalizer that prunes witness values to the re-inferred types (to_witness_node rebuilds arrows in a fresh inference context, so a '
               'never-inspected witness re-infers smaller while its value keeps the declared width; finalize_unpruned does not repair that); '
               '(R02.2) commit() and satisfy convert the same field with structure-preserving converters (only convert_witness/disconnect/data '
               'are overridden, no prune_case/visit_node), commit takes no witness input; (R02.3) frozen who-may-create of inference contexts; '
               '(R02.4) is_consistent gate (shared with C05). Decoder acceptance and Bit Machine behaviour live in simplicity-lang and are not decided.')
NOT_DECIDED = ['decoder acceptance in general', 'Bit Machine panic-freedom', 'CMR computation inside simplicity-lang']
ASSUMPTIONS = ['simplicity-lang: finalize_pruned prunes witness values with Value::prune; finalize_unpruned keeps them (read in node/construct.rs, node/redeem.rs of 0.4.0)',
               'Node::convert preserves combinator structure when only convert_witness/convert_disconnect/convert_data are implemented']


def r_converters(ctx):
    rid = 'R02.2'
    ctx.rule(rid, 'commit() = to_commit_node(&self.simplicity); satisfy populates the same self.simplicity; Forgetter/Populator override only convert_witness/convert_disconnect/convert_data; to_commit_node reuses the node\'s own arrow')
    fx = ctx.facts()
    commit = ctx.anchor(fx, 'CompiledProgram::commit')
    res = [r for r in explore(ctx, commit, follow_break=True) if r[0] == 'RET']
    ok = len(res) == 1 and not res[0][1].conds
    if ok:
        c = calls_in(res[0][2], 'named::to_commit_node')
        ok = len(c) == 1 and field_of_param(c[0][2][0], 'self', 'simplicity')
    ctx.ob(rid, 'commit:source', ok, 'commit() converts self.simplicity with to_commit_node on its single path', commit.where(), sv(res[0][2]) if res else None)
    ctx.ob(rid, 'commit:no-witness-input', commit.argc == 1, 'commit takes no argument besides self (CMR cannot depend on witness values)', commit.where())
    for conv, allowed in (('named::to_commit_node::Forgetter', {'convert_witness', 'convert_disconnect', 'convert_data'}),
                          ('named::to_witness_node::Populator', {'convert_witness', 'convert_disconnect', 'convert_data'})):
        fns = fx.find(r'^<%s as .*Converter<.*>>::\w+$' % re.escape(conv))
        names = {f.path.split('::')[-1] for f in fns}
        for f in fns:
            ctx.saw(f)
        ctx.ob(rid, 'converter:%s:methods' % conv, names == allowed, '%s overrides exactly %s (found %s)' % (conv, sorted(allowed), sorted(names)))
    # to_commit_node's convert_data uses the node's own arrow
    cd = fx.find(r'^<named::to_commit_node::Forgetter as .*>::convert_data$')
    for f in cd:
        for kind, p, ret in explore(ctx, f, follow_break=True):
            if kind != 'RET':
                continue
            c = calls_in(ret, 'new')
            c = [x for x in c if 'CommitData' in x[1]]
            ok = len(c) == 1 and calls_in(c[0][2][0], 'arrow') and has_param(c[0][2][0], 'data') and not p.conds
            ctx.ob(rid, 'forgetter:arrow', bool(ok), 'CommitData is built from the arrow cached in the construct node (same inference result as compilation)', f.where(), sv(ret))
    # the two converters drive Node::convert on the function argument
    for name in ('named::to_commit_node', 'named::to_witness_node'):
        f = ctx.anchor(fx, name)
        conv = [e for kind, p, ret in explore(ctx, f) for e in event_calls(p, 'convert')]
        ok = len(conv) >= 1 and all(e[2][0] == ('param', 0, 'node') for e in conv)
        ctx.ob(rid, 'convert-root:' + name, ok, '%s converts the node it was given' % name, f.where())


def r_contexts(ctx):
    rid = 'R02.3'
    allowed = {'compile::Scope::new', '<CompiledProgram as std::default::Default>::default', 'named::to_witness_node'}
    ctx.rule(rid, 'simplicity::types::Context::new is called only in %s' % sorted(allowed))
    fx = ctx.facts()
    sites = fx.callers_of(lambda c: c.endswith('types::Context::new') or c.endswith('types::context::Context::new'))
    for f, bid, c, t in sites:
        ctx.saw(f)
        ctx.ob(rid, 'context-new:' + f.path, f.path in allowed, 'inference context created in %s' % f.path, f.where(t['line']))
    ctx.floor(rid, 'Context::new call sites', len(sites), 2)


def check(ctx):
    from . import c07, layout
    c07.r_shared_callee(ctx)
    layout.r_btree(ctx, 'R02.8')
    layout.r_partition(ctx, 'R02.9')
    c07.r_value_to_structural(ctx, 'R02.10')
    c07.r_layout_tables(ctx, 'R02.11', c07.LAYOUT_CONSTRUCT, 20)
    c07.r_uint_tables(ctx, only={'get_type', 'from-primitive', 'structural-value', 'structural-type'})   # the type a witness value reports is the type it is checked and encoded at
    satisfy.r_witness_node_typing(ctx, 'R02.12')
    satisfy.r_finalizers(ctx, 'R02.1f', check_pruned_values=True)
    ctx.rule('R02.1', 'every success path of satisfy_with_env finalizes with value pruning (finalize_pruned)')
    r_converters(ctx)
    r_contexts(ctx)
    satisfy.r_consistency_gate(ctx, 'R02.4')
    satisfy.r_single_caller(ctx, 'R02.5', 'named::to_witness_node', {satisfy.SAT})
    satisfy.r_single_caller(ctx, 'R02.6', 'named::to_commit_node', {'CompiledProgram::commit'})
    satisfy.r_is_consistent_witness(ctx, 'R02.7')
    if ctx.tier == 'thorough':
        from .. import witness
        witness.run(ctx, 'R02.W', ['W1', 'W3'])
