"""C20 Compile errors quote the source lines they point at."""
import re
from ..core import sv, walk
from ..util import *
from ..printer import path_pieces
from .layout import S
from . import c06

EXPLANATION = ('Decides the structural facts that make "line N quotes line N" true independently of how a span was computed: (R20.1) span '
               'provenance: Span::new / Position::new / Span literals are used only by the three conversions in error.rs (from a pest pair, from '
               'the text, from a pest error); every other span is a copy of a parse-node span; (R20.2) the rendering relation: quoted lines are '
               'str::lines() of the file skipped by start.line − 1 and limited to end.line − (start.line − 1) lines, and the number printed in '
               'front of each is (start.line − 1) + enumerate index + 1, so numbers are consecutive, start at start.line and each quotes its own '
               'line without terminator; the message ends with the Display of the error on every path; (R20.3) rendering cannot panic '
               '(panic-site discharge over the Display impls); (R20.4) every error leaving TemplateProgram::new / instantiate carries the file. '
               'Agreement of pest\'s line/column arithmetic with the source is a dependency fact.')
NOT_DECIDED = ['pest line_col arithmetic vs the text (tabs, CRLF, multi-byte characters)', 'that a span lies inside the file (follows from pest positions)', 'underline column arithmetic']
ASSUMPTIONS = ['pest positions are 1-based and lie inside the parsed text', 'str::lines splits at \\n and strips a trailing \\r']

START_IDX = 'SubWithOverflow(get(self.span.start.line), 1_usize).0'


def r_provenance(ctx):
    rid = 'R20.1'
    ctx.rule(rid, 'span provenance: Span::new, Position::new and Span/Position struct literals occur only in the conversions of error.rs')
    fx = ctx.facts()
    allowed_new = {'<error::Span as std::convert::From<&\'a pest::iterators::Pair<\'_, parse::Rule>>>::from', '<error::Span as std::convert::From<&str>>::from',
                   '<error::RichError as std::convert::From<pest::error::Error<parse::Rule>>>::from'}
    n = 0
    for callee in ('error::Span::new', 'error::Position::new'):
        for f, bid, c, t in fx.callers_of(callee):
            if f.macro:
                continue
            n += 1
            ctx.ob(rid, 'caller:%s:%s' % (callee.split('::', 1)[1], f.path), f.path in allowed_new, '%s called in %s' % (callee, f.path), f.where(t['line']))
    ctx.floor(rid, 'Span::new / Position::new call sites', n, 4)
    for p, f in fx.F.items():
        if f.macro or f.kind in ('Const', 'AssocConst'):
            continue
        for b in f.blocks.values():
            if b['cleanup']:
                continue
            for st in b['stmts']:
                if st['rv']['k'] == 'agg' and st['rv']['kind'] in ('adt:error::Span::Span', 'adt:error::Position::Position'):
                    ctx.ob(rid, 'literal:%s:%s' % (st['rv']['kind'].split('::')[-1], p), p in ('error::Span::new', 'error::Position::new'), '%s literal in %s' % (st['rv']['kind'].split('::')[-1], p), f.where(st['line']))
    # RichError spans come from with_span(span.into()) / RichError::new
    for f, bid, c, t in fx.callers_of('error::RichError::new'):
        if f.macro:
            continue
        ctx.ob(rid, 'richerror-new:' + f.path, f.path in ('error::Error::with_span', '<error::RichError as std::convert::From<pest::error::Error<parse::Rule>>>::from'), 'RichError::new called in %s' % f.path, f.where(t['line']))


def r_render(ctx):
    rid = 'R20.2'
    ctx.rule(rid, 'rendering relation: lines = file.lines().skip(start.line − 1).take(end.line − (start.line − 1)); printed number = (start.line − 1) + index + 1; message ends with the error description')
    fx = ctx.facts()
    fn = ctx.anchor(fx, '<error::RichError as std::fmt::Display>::fmt')
    res = explore(ctx, fn, max_visits=2)
    it_ok = False
    num_ok = False
    quoted_ok = False
    ends = []
    for kind, p, ret in res:
        for w, l in p.conds:
            s = S(w)
            if s.startswith('next(into_iter(enumerate(take(peekable(skip(lines(self.file@Some.0), %s)), SubWithOverflow(get(self.span.end.line), %s).0))))' % (START_IDX, START_IDX)):
                it_ok = True
        # the line-number argument of the `N | text` line
        for e in event_calls(p, 'new_display'):
            s = S(e[2][0])
            if s.startswith('AddWithOverflow(AddWithOverflow(%s, ' % START_IDX) and s.endswith('@Some.0.0).0, 1_usize).0'):
                num_ok = True
            if s.endswith('@Some.0.1') and 'enumerate' in s:
                quoted_ok = True
        if kind == 'RET':
            c = calls_in(ret, 'new_display')
            ends.append(bool(c) and S(c[-1][2][0]) == 'self.error' and is_call(strip_try(ret), 'write_fmt'))
    ctx.ob(rid, 'lines:window', it_ok, 'the quoted lines are lines().skip(start.line − 1).take(end.line − start.line + 1)', fn.where())
    ctx.ob(rid, 'lines:number', num_ok, 'the printed number is (start.line − 1) + enumerate index + 1', fn.where())
    ctx.ob(rid, 'lines:text', quoted_ok, 'the text after `N | ` is the enumerate item of that iteration (the line itself, as yielded by lines())', fn.where())
    ctx.ob(rid, 'ends-with-error', bool(ends) and all(ends), 'every path ends by writing the Display of the error (%d paths)' % len(ends), fn.where())
    # the `N | text` template: number, " | ", text, newline
    tmpl = set()
    for kind, p, ret in res:
        for e in event_calls(p, 'new'):
            if 'Arguments' in e[1] and e[2] and e[2][0][0] == 'const':
                tmpl.add(e[2][0][1])
    ctx.ob(rid, 'template', any(' | ' in t and '\\n' in t for t in tmpl), 'a template `{num:width$} | {line}\\n` is used for quoted lines', fn.where(), str(sorted(tmpl))[:300])
    ml = ctx.anchor(fx, 'error::Span::is_multiline')
    rets = [S(r) for k, p, r in explore(ctx, ml) if k == 'RET']
    ctx.ob(rid, 'is_multiline', rets == ['Lt(get(self.start.line), get(self.end.line))'], 'is_multiline = start.line < end.line', ml.where(), str(rets))


def r_file_attached(ctx):
    rid = 'R20.4'
    ctx.rule(rid, 'every RichError leaving TemplateProgram::new / instantiate has the source file attached (with_file) so that it renders with quoted lines')
    fx = ctx.facts()
    fn = ctx.anchor(fx, 'TemplateProgram::new')
    n = 0
    for kind, p, ret in explore(ctx, fn, follow_break=True):
        if kind != 'RET' or ret_kind(ret) != 'residual':
            continue
        n += 1
        s = S(ret)
        x = ret[1]
        while isinstance(x, tuple) and x and x[0] in ('field', 'down', 'try'):
            x = x[1]
        ok = is_call(x) and x[1].split('::')[-1] in ('with_file', 'parse_from_str')
        ctx.ob(rid, 'new:error-path:%d' % n, ok, 'error path of TemplateProgram::new goes through with_file / ParseFromStr (which attaches the text)', fn.where(), s[:200])
    ctx.floor(rid, 'error paths of TemplateProgram::new', n, 2)
    pf = ctx.anchor(fx, '<A as parse::ParseFromStr>::parse_from_str')
    oks = []
    for kind, p, ret in explore(ctx, pf, follow_break=True):
        if kind == 'RET':
            s = S(ret)
            oks.append('with_file(' in s)
    ctx.ob(rid, 'parse_from_str:with_file', bool(oks) and all(oks), 'ParseFromStr::parse_from_str attaches the text to grammar errors and to tree-construction errors', pf.where())
    ins = ctx.anchor(fx, 'TemplateProgram::instantiate')
    ok = False
    for kind, p, ret in explore(ctx, ins, follow_break=True):
        if kind == 'RET' and ret_kind(ret) == 'residual' and 'compile(' in S(ret):
            x = ret[1]
            while isinstance(x, tuple) and x and x[0] in ('field', 'down', 'try'):
                x = x[1]
            ok = is_call(x) and x[1].split('::')[-1] == 'with_file'
    ctx.ob(rid, 'instantiate:with_file', ok, 'compile errors of instantiate carry the file', ins.where())


def r_conversions(ctx):
    rid = 'R20.5'
    ctx.rule(rid, 'span conversions: from a pest pair = (line_col of the pair start, line_col of the end position of its span); from a pest error = its position (one column wide) or its span; start before end in both')
    fx = ctx.facts()
    fn = ctx.anchor(fx, "<error::Span as std::convert::From<&'a pest::iterators::Pair<'_, parse::Rule>>>::from")
    rets = [S(r) for k, p, r in explore(ctx, fn) if k == 'RET']
    exp = 'new(new(line_col(pair).0, line_col(pair).1), new(line_col(end_pos(as_span(pair))).0, line_col(end_pos(as_span(pair))).1))'
    ctx.ob(rid, 'from-pair', rets == [exp], 'Span::from(pair) = Span::new(Position(pair.line_col()), Position(pair.as_span().end_pos().line_col()))', fn.where(), str(rets))
    fe = ctx.anchor(fx, '<error::RichError as std::convert::From<pest::error::Error<parse::Rule>>>::from')
    got = {}
    for k, p, r in explore(ctx, fe):
        if k == 'RET' and p.conds:
            got[p.conds[0][1]] = S(r)
    L = 'error.line_col'
    exp = {'Pos': 'new(Grammar{to_string(message(error.variant))}, new(new(%s@Pos.0.0, %s@Pos.0.1), new(%s@Pos.0.0, AddWithOverflow(%s@Pos.0.1, 1_usize).0)))' % (L, L, L, L),
           'Span': 'new(Grammar{to_string(message(error.variant))}, new(new(%s@Span.0.0, %s@Span.0.1), new(%s@Span.1.0, %s@Span.1.1)))' % (L, L, L, L)}
    ctx.ob(rid, 'from-pest-error', got == exp, 'grammar errors point at the position pest reports (Pos: that column; Span: start..end) with pest\'s message', fe.where(), str(got)[:500])
    ws = ctx.anchor(fx, 'error::Error::with_span')
    rets = [S(r) for k, p, r in explore(ctx, ws) if k == 'RET']
    ctx.ob(rid, 'with_span', rets == ['new(self, span)'], 'Error::with_span(span) = RichError::new(self, span)', ws.where(), str(rets))


def r_same_text(ctx):
    rid = 'R20.6'
    ctx.rule(rid, 'the text that is parsed is the text that is attached to errors and the text the caller supplied: no transformation (trim, replace, slice) between the entry point, the pest parser and with_file')
    fx = ctx.facts()
    pf = ctx.anchor(fx, '<A as parse::ParseFromStr>::parse_from_str')
    ok = False
    detail = None
    for kind, p, ret in explore(ctx, pf, follow_break=True):
        ps = [e for e in event_calls(p, 'parse') if 'IdentParser' in e[1] or 'pest' in e[1]]
        wf = event_calls(p, 'with_file')
        if ps and wf:
            param = ('param', 0, pf.names.get(1, 's'))
            detail = 'parse(.., %s); with_file(.., %s)' % (S(ps[0][2][1]), [S(w[2][1]) for w in wf])
            ok = ps[0][2][1] == param and all(w[2][1] == param for w in wf)
    ctx.ob(rid, 'parse_from_str', ok, 'parse_from_str parses and attaches exactly its argument', pf.where(), detail)
    tn = ctx.anchor(fx, 'TemplateProgram::new')
    ok = False
    for kind, p, ret in explore(ctx, tn, follow_break=True):
        if kind == 'RET' and ret_kind(ret) == 'ok':
            lit = [x for x in walk(ret) if x[0] == 'agg' and x[1].endswith('TemplateProgram::TemplateProgram')]
            pcs = event_calls(p, 'parse_from_str')
            wf = event_calls(p, 'with_file')
            if lit and pcs and wf:
                file = lit[0][2][1]
                ok = S(file) == 'into(s)' or S(file) == 's'
                ok = ok and S(pcs[0][2][0]) == S(file) and all(S(w[2][1]) == S(file) for w in wf)
    ctx.ob(rid, 'template-new', ok, 'TemplateProgram::new parses, attaches and stores the same text s.into()', tn.where())
    wfn = ctx.anchor(fx, 'error::RichError::with_file')
    rets = [ret for kind, p, ret in explore(ctx, wfn) if kind == 'RET']
    me, arg = ('param', 0, wfn.names.get(1, 'self')), ('param', 1, wfn.names.get(2, 'file'))
    some = ('agg', 'adt:std::option::Option::Some', (arg,))

    def verbatim(r):
        # struct literal { error: self.error, span: self.span, file: Some(file) } or self with file := Some(file)
        if r[0] == 'agg' and r[1].endswith('RichError::RichError'):
            return r[2] == (('field', me, 'error'), ('field', me, 'span'), some)
        return r == ('upd', me, (('file', some),))
    ctx.ob(rid, 'with_file', bool(rets) and all(verbatim(r) for r in rets), 'with_file keeps error and span and attaches Some(file) with file the argument itself, on every path', wfn.where(),
           '; '.join(S(r) for r in rets)[:300])
    deny = re.compile(r'::(trim\w*|replace\w*|to_lowercase|to_uppercase|strip_\w+|split\w*|lines|chars)$')
    for path in ('<A as parse::ParseFromStr>::parse_from_str', 'TemplateProgram::new', 'CompiledProgram::new', 'TemplateProgram::instantiate', 'error::RichError::with_file'):
        fn = ctx.anchor(fx, path)
        hits = [c for bid, c, t in deep_calls(fx, fn) if deny.search(c)]
        ctx.ob(rid, 'no-text-transform:' + path, not hits, 'no string transformation in %s' % path, fn.where(), str(hits))


def check(ctx):
    from . import c04
    c04.group_rule(ctx, 'R20.7', r'^(<A as parse::ParseFromStr>::parse_from_str|TemplateProgram::(new|instantiate)|CompiledProgram::new|<error::RichError as std::fmt::Display>::fmt|error::Span::to_slice)$', 'text plumbing and error rendering: full call traces', 6)
    r_same_text(ctx)
    # the positions an error is rendered at: line and column are built >= 1 (NonZeroUsize) from the text / the pest positions
    c04.group_rule(ctx, 'R20.8', r"^(<error::Span as std::convert::From<&str>>::from|<error::Span as std::convert::From<&'a pest::iterators::Pair<'_, parse::Rule>>>::from|<error::RichError as std::convert::From<pest::error::Error<parse::Rule>>>::from)$", 'span construction from a text, a pest pair and a pest error (positions >= 1)', 3)
    r_conversions(ctx)
    r_provenance(ctx)
    r_render(ctx)
    c06.panic_rule(ctx, 'R20.3', entries=['<error::RichError as std::fmt::Display>::fmt', '<error::Error as std::fmt::Display>::fmt', 'error::<impl std::convert::From<error::RichError> for std::string::String>::from',
                                           "<error::Span as std::convert::From<&'a pest::iterators::Pair<'_, parse::Rule>>>::from", '<error::Span as std::convert::From<&str>>::from',
                                           '<error::RichError as std::convert::From<pest::error::Error<parse::Rule>>>::from'], what='error rendering and span construction')
    r_file_attached(ctx)
