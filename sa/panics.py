"""RF-D: inventory of panic-capable sites reachable from the text entry points, and their discharge."""
import json
import os
import re

from .core import short
from .pestshape import ShapeSim

VERIF = os.path.dirname(os.path.dirname(os.path.abspath(__file__)))
TABLE = os.path.join(VERIF, 'tables', 'panic_sites.json')

TEXT_ENTRIES = [
    'TemplateProgram::new', 'TemplateProgram::instantiate', 'TemplateProgram::parameters', 'CompiledProgram::new', 'CompiledProgram::commit',
    'CompiledProgram::satisfy', 'CompiledProgram::satisfy_with_env', 'CompiledProgram::debug_symbols', 'SatisfiedProgram::new',
    '<witness::WitnessValues as parse::ParseFromStr>::parse_from_str', '<witness::Arguments as parse::ParseFromStr>::parse_from_str',
    'value::Value::parse_from_str', 'witness::<impl parse::ParseFromStr for types::ResolvedType>::parse_from_str',
    '<error::RichError as std::fmt::Display>::fmt', '<error::Error as std::fmt::Display>::fmt', 'error::<impl std::convert::From<error::RichError> for std::string::String>::from',
]
SERDE_ENTRIES = [r'^<.* as serde::Deserialize<.*>>::deserialize$', r'^<.* as serde::de::Visitor<.*>>::', r'^<.* as serde::Serialize>::serialize$',
                 r'^serde::<impl serde::(Deserialize|Serialize).*$', r'^<serde::.* as serde::', r'^serde::']

UNWRAPS = re.compile(r'^std::(option::Option|result::Result)::(unwrap|expect|unwrap_err|expect_err|unwrap_unchecked)$')
PANICS = re.compile(r'^(core::panicking::\w+|std::rt::panic_fmt|std::rt::begin_panic|std::process::abort|core::option::unwrap_failed|core::result::unwrap_failed|core::option::expect_failed)$')
INDEXING = re.compile(r'(::index|::index_mut|::split_off|::split_at|::split_at_mut|::copy_from_slice|::remove|::swap_remove|::drain|::swap|::clone_from_slice|::chunks|::chunks_exact|::windows|::from_utf8_unchecked|::get_unchecked|^std::vec::Vec::insert)$')
IDX_OK = re.compile(r'(HashMap|BTreeMap|HashSet|BTreeSet|VacantEntry|OccupiedEntry|hash_map|btree_map).*::(insert|remove|swap_remove)$|::truncate$')
ASSERT_KINDS = ('Overflow', 'BoundsCheck', 'DivisionByZero', 'RemainderByZero')


def entries(fx, config):
    out = [e for e in TEXT_ENTRIES if e in fx.F]
    missing = [e for e in TEXT_ENTRIES if e not in fx.F]
    if config == 'serde':
        for p in fx.F:
            if any(re.search(r, p) for r in SERDE_ENTRIES):
                out.append(p)
    return out, missing


def _const_nonzero_divisor(b, t):
    c = t.get('cond', {})
    if c.get('k') not in ('move', 'copy') or c['pl']['p']:
        return False
    for st in reversed(b['stmts']):
        if st['lhs']['l'] == c['pl']['l'] and not st['lhs']['p']:
            rv = st['rv']
            if rv['k'] == 'bin' and rv['op'] == 'Eq' and rv['a']['k'] == 'const' and rv['b']['k'] == 'const':
                m = re.match(r'^(\d+)_[ui](\d+|size)$', rv['a']['v'])
                z = re.match(r'^0_[ui](\d+|size)$', rv['b']['v'])
                return bool(m and z and int(m.group(1)) != 0)
            return False
    return False


def sites_of(fn):
    """[(bb, kind, detail, line, macro)] panic-capable sites of one function (non-cleanup blocks)."""
    out = []
    for bid in sorted(fn.blocks):
        b = fn.blocks[bid]
        if b['cleanup']:
            continue
        t = b['term']
        if t['k'] == 'call':
            f = t['f']
            c = short(f['def']) if f['k'] == 'const' and f.get('def') else '?'
            if UNWRAPS.match(c):
                out.append((bid, 'unwrap', c.split('::')[-1], t['line'], t.get('mac', '')))
            elif PANICS.match(c) or t['target'] < 0:
                out.append((bid, 'panic', c.split('::')[-1], t['line'], t.get('mac', '')))
            elif INDEXING.search(c) and not IDX_OK.search(c) and 'serde' not in c:
                out.append((bid, 'index', re.sub(r'^.*::', '', c), t['line'], t.get('mac', '')))
        elif t['k'] == 'assert':
            kind = t['msg'].split('(')[0].split(' ')[0]
            if kind in ASSERT_KINDS:
                if kind in ('DivisionByZero', 'RemainderByZero') and _const_nonzero_divisor(b, t):
                    continue   # `x / c`, `x % c` with a non-zero literal c: the assertion compares two constants
                det = kind
                if kind == 'Overflow':
                    m = re.match(r'Overflow\((\w+)', t['msg'])
                    det = 'Overflow:' + (m.group(1) if m else '?')
                out.append((bid, 'assert', det, t['line'], t.get('mac', '')))
    return out


def keyed_sites(fn):
    cnt = {}
    res = []
    for bid, kind, det, line, mac in sites_of(fn):
        k = (kind, det)
        cnt[k] = cnt.get(k, 0) + 1
        key = '%s|%s|%s|%d' % (fn.path, kind, det, cnt[k])
        res.append((key, bid, kind, det, line, mac))
    return res


def load_table():
    if not os.path.exists(TABLE):
        return {}
    return json.load(open(TABLE))['sites']
