"""Debug helper: python3 -m sa.show [-b] [-m] <fn path regex>   (-b: follow `?` Break arms, -m: dump MIR)"""
import sys, json
from .core import *

def main():
    args = sys.argv[1:]
    fb = '-b' in args
    mir = '-m' in args
    cfgname = 'serde' if '-s' in args else 'default'
    args = [a for a in args if not a.startswith('-')]
    fx = Facts(cfgname)
    crate = 'simfony'
    fns = [f for p, f in fx.crates[crate].items() if args[0] == p] or fx.find(args[0])
    for fn in fns:
        print('==', fn.path, fn.loc)
        if mir:
            for bid, b in sorted(fn.blocks.items()):
                if b['cleanup']: continue
                print(' bb%d' % bid)
                ex = Explorer(fn)
                for st in b['stmts']:
                    print('    _%s%s = %s' % (st['lhs']['l'], ''.join(st['lhs']['p']), json.dumps(st['rv'])[:260]))
                t = dict(b['term'])
                if t['k'] == 'call':
                    print('    CALL %s(%s) -> _%s%s  => bb%s  [line %s]' % (short(t['f'].get('def') or '?'), ', '.join(json.dumps(a.get('pl', a.get('v')))[:80] for a in t['args']), t['dest']['l'], ''.join(t['dest']['p']), t['target'], t['line']))
                else:
                    print('    ', json.dumps(t)[:300])
            continue
        res = Explorer(fn, follow_break=fb).run()
        print(' paths:', len(res))
        for r in res:
            kind, p = r[0], r[1]
            if p is None: print(kind); continue
            conds = ' & '.join('%s=%s' % (sv(w), l) for w, l in p.conds)
            if kind == 'RET':
                print(' PATH[%s]\n    => %s' % (conds, sv(r[2])))
            else:
                print(' ', kind, '[%s]' % conds, sv(r[2]) if isinstance(r[2], tuple) else r[2])
main()
