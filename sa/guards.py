"""RF-C: decision tables (guard inventory) of front-end functions.

For a function, every explored path gives a row: canonical path conditions, the ordered list of `?`-checked
operations that were passed, and the outcome (constructed Ok value kind, Err variant, panic, loop cut).
The multiset of rows is compared with the frozen reviewed table."""
import json
import os
import re

from .core import Explorer, sv, walk
from .util import *
from .props.layout import S, strip

VERIF = os.path.dirname(os.path.dirname(os.path.abspath(__file__)))
TABLE = os.path.join(VERIF, 'tables', 'guards.json')

SWAP = {'Gt': 'Lt', 'Ge': 'Le'}
CALLSWAP = {'gt': 'lt', 'ge': 'le'}


def canon_cond(w, lab):
    """Canonical (text, truth) of a boolean condition; enum switches stay (text, variant label)."""
    if isinstance(w, tuple) and w and w[0] == 'try' and lab in ('Continue', 'Break'):
        # `x?` is the test "x is Ok/Some": rendered like an explicit match on x.  Wrappers that only decorate the error
        # (with_span, with_file, map_err) are dropped; ok_or / ok_or_else(o, ..)? is the test "o is Some"
        kind = w[2] if len(w) > 2 else 'R'
        x = w[1]
        for _ in range(8):
            if is_call(x) and (x[1].split('::')[-1] in ('with_span', 'with_file', 'map_err') or (x[1].split('::')[-1] == 'map' and ('Result' in x[1] or 'Option' in x[1]))) and x[2]:
                x = x[2][0]
                continue
            if is_call(x) and x[1].split('::')[-1] == 'transpose' and x[2] and isinstance(x[2][0], tuple) and x[2][0][0] == 'agg' and x[2][0][1].endswith('Option::Some') and x[2][0][2]:
                x = x[2][0][2][0]      # Some(r).transpose() is Ok exactly when r is
                continue
            if is_call(x) and x[1].split('::')[-1] in ('ok_or', 'ok_or_else') and x[2]:
                x = x[2][0]
                kind = 'O'
                continue
            break
        good, bad = ('Some', 'None') if kind == 'O' else ('Ok', 'Err')
        return (N(strip(x)), good if lab == 'Continue' else bad)
    while isinstance(w, tuple) and w and w[0] == 'try':
        w = w[1]
    inst = w[3] if (isinstance(w, tuple) and w and w[0] == 'call' and len(w) > 3) else ''
    w = strip(w)
    if lab in ('0', '!0'):
        truth = lab == '!0'
        # unwrap Not
        while isinstance(w, tuple) and w[0] == 'un' and w[1] == 'Not':
            w = w[2]
            truth = not truth
        if isinstance(w, tuple) and w[0] == 'bin':
            op, a, b = w[1], w[2], w[3]
            if op in SWAP:
                op, a, b = SWAP[op], b, a
            if op == 'Ne':
                op, truth = 'Eq', not truth
            if op == 'Le':
                # MIR binary comparisons are on primitive integers/chars only: a <= b is exactly !(b < a)
                op, a, b, truth = 'Lt', b, a, not truth
            if op == 'Eq' and N(a) > N(b):
                a, b = b, a
            return ('%s(%s, %s)' % (op, N(a), N(b)), 'T' if truth else 'F')
        if is_call(w):
            last = w[1].split('::')[-1]
            # x.is_some() / is_none() / is_ok() / is_err() are the tests "x is Some / None / Ok / Err" of a match on x
            tests = {'is_some': ('Some', 'None'), 'is_none': ('None', 'Some'), 'is_ok': ('Ok', 'Err'), 'is_err': ('Err', 'Ok')}
            if last in tests and len(w[2]) == 1 and ('Option' in w[1] or 'Result' in w[1]):
                return (N(w[2][0]), tests[last][0] if truth else tests[last][1])
            if last == 'is_empty' and len(w[2]) == 1:
                return ('Eq(0_usize, len(%s))' % N(w[2][0]), 'T' if truth else 'F')
            if last in ('ne', 'eq', 'lt', 'le', 'gt', 'ge') and len(w[2]) == 2:
                a, b = w[2]
                ty = ''
                m = re.search(r'for &?([\w:]+)>', inst or '') or re.search(r'<([\w:<>, &\']+) as std::cmp::Partial', inst or '')
                if m:
                    ty = '<' + m.group(1).split('::')[-1] + '>'
                if last in CALLSWAP:
                    last, a, b = CALLSWAP[last], b, a
                if last == 'ne':
                    last, truth = 'eq', not truth
                if last == 'eq' and N(a) > N(b):
                    a, b = b, a
                return ('%s%s(%s, %s)' % (last, ty, N(a), N(b)), 'T' if truth else 'F')
        return (N(w), 'T' if truth else 'F')
    if lab in ('Some', 'None'):
        nw = norm(w)
        if isinstance(nw, tuple) and nw and nw[0] == 'field' and nw[2] in ('0', '1') and is_call(nw[1]) and nw[1][1].split('::')[-1].split('.')[-1] == 'next' \
                and is_call(strip(w)) and strip(w)[1].split('::')[-1] == 'next':
            return (S(nw[1]), lab)      # "is there a next key" is "is there a next entry"
    if is_call(w) and w[1].split('::')[-1] == 'entry' and len(w[2]) == 2 and lab in ('Occupied', 'Vacant'):
        # match map.entry(k) { Occupied / Vacant } is the test map.contains_key(k)
        return ('HashMap.contains_key(%s, %s)' % (N(w[2][0]), N(w[2][1])), 'T' if lab == 'Occupied' else 'F')
    return (N(w), lab)


DECOR = ('with_span', 'with_file', 'map_err', 'ok_or', 'ok_or_else')


_CFG = [None]     # feature configuration whose facts the current table rows are built from (None = default)
_FX = [None]      # facts of the current run (set by decision_table) for closure look-through in norm()
_ETA = {}


def _eta(path):
    """`|x| f(x)` (no captures, one path, no conditions) is f itself."""
    fx = _FX[0]
    key = (id(fx), path)
    if key in _ETA:
        return _ETA[key]
    out = None
    cf = fx.F.get(path) if fx is not None else None
    if cf is not None:
        res = Explorer(cf, facts=fx, max_paths=8).run()
        if len(res) == 1 and res[0][0] == 'RET' and not res[0][1].conds:
            r = res[0][2]
            if isinstance(r, tuple) and r and r[0] == 'call' and list(r[2]) == [('param', i, cf.names.get(i + 1, 'arg%d' % i)) for i in range(1, cf.argc)]:
                out = ('fn', r[1], r[3] if len(r) > 3 else '')
    _ETA[key] = out
    return out


_ACC = {}
_ACC_ON = [False]     # accessor inlining only for reviewed-table rows (rules that look for a text keep the written names)


def _accessor(callee, args):
    """A call of a local function that only projects its argument (`as_inner(&self) -> &self.0`, `get(self) -> self.0`) is
    the projection itself."""
    fx = _FX[0]
    if not _ACC_ON[0]:
        return None
    cf = fx.F.get(callee) if fx is not None else None
    if cf is None or cf.macro or cf.argc != len(args) or cf.argc == 0:
        return None
    key = (id(fx), callee)
    if key not in _ACC:
        tmpl = None
        try:
            res = Explorer(cf, facts=fx, max_paths=4).run()
            if len(res) == 1 and res[0][0] == 'RET' and not res[0][1].conds and not [e for e in res[0][1].events if e[0] == 'call']:
                r = res[0][2]
                ok = isinstance(r, tuple) and r[0] in ('field', 'param')
                x = r
                while ok and isinstance(x, tuple) and x[0] == 'field':
                    x = x[1]
                if ok and isinstance(x, tuple) and x[0] == 'param':
                    tmpl = r
        except Exception:
            tmpl = None
        _ACC[key] = tmpl
    tmpl = _ACC[key]
    if tmpl is None:
        return None

    def sub(t):
        if t[0] == 'param':
            return args[t[1]]
        return ('field', sub(t[1]), t[2])
    return sub(tmpl)


_LAM = {}


def _lam(v):
    """A closure with one path and no decision, as a lambda term: its body with the captured values substituted and its
    own parameters named $1, $2..  (`|s| f(s, &unit, scope)` with unit = T::unit() and `|s| f(s, &T::unit(), scope)` are
    the same term).  None for closures that branch."""
    fx = _FX[0]
    cf = fx.F.get(v[1][8:]) if fx is not None else None
    if cf is None or cf.macro:
        return None
    key = (id(fx), v)
    if key in _LAM:
        return _LAM[key]
    _LAM[key] = None      # recursion guard
    out = None
    try:
        args = [v] + [('param', i, '$%d' % i) for i in range(1, cf.argc)]
        res = Explorer(cf, facts=fx, max_paths=8).run(args=args)
        if len(res) == 1 and res[0][0] == 'RET' and not res[0][1].conds and isinstance(res[0][2], tuple):
            effs = [e for e in res[0][1].events if e[0] == 'call' and len(e) > 6 and e[6]]
            if not effs or True:
                out = ('lam', cf.argc - 1, norm(res[0][2]))
    except Exception:
        out = None
    _LAM[key] = out
    return out


def _iter_map(nxt):
    """The collection whose entries the step `next(into_iter([sorted_by_key(][iter(]m[)][, key)]))` visits."""
    x = nxt[2][0] if is_call(nxt) and nxt[2] else None
    if not (is_call(x) and x[1].split('::')[-1] == 'into_iter' and x[2]):
        return None
    x = x[2][0]
    if is_call(x) and x[1].split('::')[-1].split('.')[-1] in ('sorted_by_key', 'sorted_unstable_by_key') and x[2]:
        x = x[2][0]
    if is_call(x) and x[1].split('::')[-1].split('.')[-1] == 'iter' and len(x[2]) == 1:
        x = x[2][0]
    return x


def norm(v):
    """Rendering form of a value inside a decision row: the payload of an Option/Result is written like the Option/Result
    itself (`x@Some.0`, `x?` and `x.ok_or(e)?` all read `x`) and error decorations are dropped, so that `?`, `ok_or(..)?` and
    an explicit `match` give the same text.  Which error is raised is part of the row outcome, not of the values."""
    if not isinstance(v, tuple) or not v:
        return v
    if v[0] == 'field' and len(v) == 3 and v[2] == '0' and isinstance(v[1], tuple) and v[1] and v[1][0] == 'down' and v[1][2] in ('Some', 'Ok'):
        return norm(v[1][1])
    if v[0] == 'call' and v[1].split('::')[-1] in DECOR and v[2]:
        return norm(v[2][0])
    if v[0] == 'call' and v[2] and (v[1].split('::')[-1] in ('as_deref', 'as_deref_mut') or
                                  (v[1].split('::')[-1] == 'map' and len(v[2]) == 2 and isinstance(v[2][1], tuple) and v[2][1] and v[2][1][0] == 'fn' and v[2][1][1].split('::')[-1] in ('as_ref', 'deref', 'as_deref', 'borrow'))):
        return norm(v[2][0])       # Option<Arc<T>> seen as Option<&T>: the same value
    if v[0] == 'call' and v[1].split('::')[-1] == 'insert' and 'VacantEntry' in v[1] and len(v[2]) == 2:
        e = v[2][0]
        if isinstance(e, tuple) and e[0] == 'field' and isinstance(e[1], tuple) and e[1][0] == 'down' and e[1][2] == 'Vacant' and is_call(e[1][1]) and e[1][1][1].split('::')[-1] == 'entry':
            m, k = e[1][1][2][0], e[1][1][2][1]
            # entry(k) .. Vacant(e) => e.insert(v)  is  map.insert(k, v)
            return norm(('call', 'std::collections::HashMap::insert', (m, k, v[2][1]), '', None))
    if v[0] == 'call' and v[1].split('::')[-1] == 'map' and len(v[2]) == 2 and ('Result' in v[1] or 'Option' in v[1]):
        f = norm(v[2][1])
        if isinstance(f, tuple) and f and f[0] == 'fn' and re.match(r'^[A-Z]', f[1].split('::')[-1]) and '<' not in f[1]:
            # x.map(Ctor) read as the payload: Ctor(x)
            return norm(('agg', 'adt:' + f[1], (v[2][0],)))
        if isinstance(f, tuple) and f and (f[0] == 'fn' or (f[0] == 'lam' and f[1] == 1)):
            return norm(_apply(f, norm(v[2][0])))        # x.map(f) read as the payload: f(x)
    if v[0] == 'call' and len(v[2]) == 1 and re.search(r'(sync::Arc|boxed::Box|rc::Rc)(::<[^>]*>)?::new$', v[1]):
        return norm(v[2][0])                              # Arc::new(x): the same value behind a pointer
    if v[0] == 'call' and v[1].split('::')[-1] == 'transpose' and len(v[2]) == 1 and isinstance(v[2][0], tuple) and v[2][0] and v[2][0][0] == 'agg' \
            and v[2][0][1].endswith(('Option::Some', 'Option::None')):
        return norm(v[2][0])                              # Some(r).transpose() read as the payload: Some(r)
    if v[0] == 'agg' and v[1].startswith('adt:') and not v[1].endswith(('Result::Ok', 'Result::Err')):
        # a literal Ok(x) stored inside a node is the carrier of a payload that was taken with `?`
        kids = tuple((k[2][0] if (isinstance(k, tuple) and k and k[0] == 'agg' and k[1].endswith('Result::Ok') and len(k[2]) == 1) else k) for k in v[2])
        if kids != v[2]:
            return norm((v[0], v[1], kids) + v[3:])
    if v[0] == 'agg' and v[1].startswith('closure:') and not v[2]:
        e = _eta(v[1][8:])
        if e is not None:
            return e
    if v[0] == 'agg' and v[1].startswith('closure:'):
        lam = _lam(v)
        if lam is not None:
            return lam
    if v[0] == 'try':
        return norm(v[1])
    if v[0] == 'call' and isinstance(v[1], str) and v[2]:
        acc = _accessor(v[1], v[2])
        if acc is not None:
            return norm(acc)
    out = tuple(norm(x) if isinstance(x, tuple) else x for x in v)
    if out[0] == 'call' and out[1].split('::')[-1] == 'into_iter' and len(out[2]) == 1 and is_call(out[2][0]) and out[2][0][1].split('::')[-1].split('.')[-1] == 'iter' \
            and len(out[2][0][2]) == 1 and _ACC_ON[0]:
        # `for e in x.iter()` and `for e in &x` visit the same elements in the same order
        out = out[:2] + (out[2][0][2],) + tuple(out[3:])
    if out[0] == 'call' and out[1].split('::')[-1].split('.')[-1] == 'next' and len(out[2]) == 1 and is_call(out[2][0]) and out[2][0][1].split('::')[-1] == 'into_iter' \
            and out[2][0][2] and is_call(out[2][0][2][0]) and out[2][0][2][0][1].split('::')[-1].split('.')[-1] in ('keys', 'values') and 'Hash' in out[2][0][2][0][1]:
        # `for k in map.keys()` is `for (k, _) in map.iter()`: the key (value) is component 0 (1) of the entry
        which = '0' if out[2][0][2][0][1].split('::')[-1].split('.')[-1] == 'keys' else '1'
        m = out[2][0][2][0][2][0]
        it = m if _ACC_ON[0] else ('call', 'q::HashMap.iter', (m,), '', None)
        ent = ('call', out[1], (('call', out[2][0][1], (it,)) + tuple(out[2][0][3:]),)) + tuple(out[3:])
        return ('field', ent, which)
    if out[0] == 'call' and out[1].split('::')[-1].split('.')[-1] == 'next' and len(out[2]) == 1 and is_call(out[2][0]) and out[2][0][1].split('::')[-1] == 'into_iter' \
            and out[2][0][2] and is_call(out[2][0][2][0]) and out[2][0][2][0][1].split('::')[-1].split('.')[-1] in ('sorted', 'sorted_unstable') and len(out[2][0][2][0][2]) == 1:
        # `for k in map.keys().sorted()` is `for (k, _) in map.iter().sorted_by_key(|(k, _)| k)`: keys are unique, same sequence
        srt = out[2][0][2][0]
        ks = srt[2][0]
        if isinstance(ks, tuple) and ks and ks[0] == 'field' and ks[2] == '0' and is_call(ks[1]) and ks[1][1].split('::')[-1].split('.')[-1] == 'next':
            pass
        if is_call(ks) and ks[1].split('::')[-1].split('.')[-1] == 'keys' and 'Hash' in ks[1] and ks[2]:
            it = ('call', 'q::HashMap.iter', (ks[2][0],), '', None)
            by = ('call', srt[1] + '_by_key', (it, ('lam', 1, ('field', ('param', 1, '$1'), '0')))) + tuple(srt[3:])
            ent = ('call', out[1], (('call', out[2][0][1], (by,)) + tuple(out[2][0][3:]),)) + tuple(out[3:])
            return ('field', ent, '0')
    if out[0] == 'call' and out[1].split('::')[-1].split('.')[-1] == 'unwrap' and 'Option' in out[1] and len(out[2]) == 1 and is_call(out[2][0]) \
            and out[2][0][1].split('::')[-1].split('.')[-1] == 'get' and 'HashMap' in out[2][0][1] and len(out[2][0][2]) == 2:
        m, k = out[2][0][2]
        if isinstance(k, tuple) and k and k[0] == 'field' and k[2] == '0' and is_call(k[1]) and k[1][1].split('::')[-1].split('.')[-1] == 'next':
            if _iter_map(k[1]) == m:
                return ('field', k[1], '1')      # map.get(k).unwrap() for the key k of the entry being visited: its value
    if out[0] == 'call' and out[1].split('::')[-1] == 'index' and 'HashMap' in out[1] and len(out[2]) == 2 \
            and isinstance(out[2][1], tuple) and out[2][1][0] == 'field' and out[2][1][2] == '0' and is_call(out[2][1][1]) and out[2][1][1][1].split('::')[-1].split('.')[-1] == 'next':
        inner = out[2][1][1]
        if _iter_map(inner) == out[2][0]:
            return ('field', inner, '1')      # map[k] for the key k of the entry being visited: the value of that entry
    if v[0] == 'call' and isinstance(v[1], str) and v[1].endswith('::write_fmt') and len(v[2]) == 2:
        # what is written: literal text and displayed values in order (write!(f, "lit") = f.write_str("lit");
        # write!(f, "{x}") with a constant or nested format_args! x = writing the text of x)
        from .printer import fmt_pieces
        ps = fmt_pieces(v[2][1])
        if ps is not None:
            items = tuple(('const', json.dumps(x, ensure_ascii=False), '&str') if isinstance(x, str) else norm(x[1]) for x in ps)
            if len(items) == 1 and items[0][0] == 'const':
                out = (v[0], v[1][:-len('write_fmt')] + 'write_str', (out[2][0], items[0])) + out[3:]
            else:
                out = (v[0], v[1][:-len('write_fmt')] + 'write', (out[2][0],) + items) + out[3:]
    if out[0] == 'call' and isinstance(out[1], str):
        # `new`, `get`, `from_str` .. of different types read the same by their last segment: keep the type of inherent methods
        m = re.match(r'^(?:\w+::)*([A-Z]\w*)(?:::<[^>]*>)?::(\w+)$', out[1])
        # (an unresolved conversion-trait call `T::from(x)` in a generic helper reads like the resolved `<X as From<Y>>::from(x)`)
        if m and '.' not in out[1] and not out[1].startswith('std::convert::'):
            out = (out[0], 'q::%s.%s' % (m.group(1), m.group(2))) + out[2:]
    return out


def N(v):
    return S(norm(v))


def sorted_key_order(v):
    """Is the iterated value `v` a hash map taken in sorted key order?  `keys().sorted[_unstable]()`, or the entries
    sorted by a key function that is the projection onto the key (`iter().sorted[_unstable]_by_key(|(k, _)| k)`)."""
    from .util import calls_in
    if (calls_in(v, 'sorted_unstable') or calls_in(v, 'sorted')) and calls_in(v, 'keys'):
        return True
    t = N(v)
    return bool(re.search(r'Itertools\.sorted(_unstable)?_by_key\((Hash|BTree)Map\.iter\([^()]*\), λ1\.\$1\.0\)', t))


def _clip(t, n):
    """Shorten a rendering without losing its identity."""
    if len(t) <= n:
        return t
    import hashlib
    return t[:n] + '…#' + hashlib.sha1(t.encode()).hexdigest()[:8]


def callee_chain(v, depth=0):
    """Short rendering of a `?` operand: outer call names with their rendered arguments."""
    return S(v)


def outcome(kind, ret):
    if kind == 'RET':
        rk = ret_kind(ret)
        ev = err_variants(ret)
        if rk == 'err' or (ev and rk != 'ok'):
            return 'err:' + ','.join(ev)
        if rk == 'residual':
            return 'err:' + ','.join(ev)
        if rk == 'ok':
            v = ret[2][0] if ret[2] else None
            if isinstance(v, tuple) and v and v[0] == 'agg':
                return 'ok:' + v[1].split('::')[-1]
            return 'ok'
        if isinstance(ret, tuple) and ret[0] == 'agg':
            return 'val:' + ret[1].split('::')[-1]
        if isinstance(ret, tuple) and ret[0] == 'const':
            return 'val:' + ret[1]
        return 'val'
    if kind == 'DIVERGE':
        return 'panic'
    if kind == 'LOOP':
        return 'loop'
    return kind.lower()


ACCESSORS = r"^(<(types|value|pattern|num|str)::[\w:]+(<[^>]*>)? as std::convert::(From|TryFrom)<.*>>::(from|try_from)(::\{closure#\d+\})*|<.* as miniscript::iter::TreeLike>::as_node|<types::\w+ as types::TypeDeconstructible>::\w+|types::TypeDeconstructible::is_unit|parse::MatchPattern::as_\w+|pattern::BasePattern::(as_identifier|is_ignore)|types::AliasedType::as_(alias|builtin)|types::UIntType::two_n|value::UIntValue::(get_type|is_of_type)|<value::UIntValue as std::convert::From<(u\d+|num::U256)>>::from|<types::BuiltinAlias as std::str::FromStr>::from_str|ast::Program::analyze::\{closure#\d+\}|ast::analyze_named_module::\{closure#\d+\})$"
FULL = re.compile(r'^(<?serde::.*|witness::(Arguments|WitnessValues)::as_inner|ast::Scope::\w+(::\{closure#\d+\})*|<(parse|str|types|value|num|error)::\w+ as std::fmt::Display>::fmt(::\{closure#\d+\})*|<.* as parse::PestParse>::parse(::\{closure#\d+\})*|<types::StructuralType as types::TypeConstructible>::\w+(::\{closure#\d+\})*|<value::StructuralValue as value::ValueConstructible>::\w+(::\{closure#\d+\})*|<value::Value as value::ValueConstructible>::\w+(::\{closure#\d+\})*|<types::ResolvedType as types::TypeConstructible>::\w+|value::destruct::\w+(::\{closure#\d+\})*|<value::StructuralValue as std::convert::From<(bool|value::UIntValue)>>::from|<types::StructuralType as std::convert::From<types::UIntType>>::from|array::\w+::<.*>::(fold|unfold|from_slice|is_complete)|<array::\w+<.*> as miniscript::iter::TreeLike>::as_node|debug::(DebugSymbols::insert|remove_excess_whitespace|CallTracker::(track_call|with_file|get_cmr|next_id_cmr)|TrackedCall::map_value)(::\{closure#\d+\})*|<A as parse::ParseFromStr>::parse_from_str|TemplateProgram::new|TemplateProgram::instantiate|CompiledProgram::new|<value::Value as std::fmt::Display>::fmt(::\{closure#\d+\})*|<parse::ExprTree<\'_> as std::fmt::Display>::fmt|types::TypeInner::<A>::display|<pattern::Pattern as std::fmt::Display>::fmt|error::Span::to_slice|<error::RichError as std::fmt::Display>::fmt|<witness::(WitnessValues|Arguments) as std::fmt::Display>::fmt|<witness::(WitnessValues|Arguments) as parse::ParseFromStr>::parse_from_str(::\{closure#\d+\})*|value::Value::parse_from_str|witness::<impl parse::ParseFromStr for types::ResolvedType>::parse_from_str)$')


def unq(t):
    """Rendering without the type qualifiers of inherent methods (for rules that look for a text inside a row)."""
    return re.sub(r'\b[A-Z]\w*\.(?=\w+\()', '', t) if isinstance(t, str) else t


def _subst(v, x):
    if not isinstance(v, tuple):
        return v
    if v == ('param', 1, '$1'):
        return x
    return tuple(_subst(y, x) for y in v)


def _apply(f, x):
    if isinstance(f, tuple) and f and f[0] == 'fn':
        if re.match(r'^[A-Z]', f[1].split('::')[-1]) and '<' not in f[1]:
            return ('agg', 'adt:' + f[1], (x,))
        return norm(('call', f[1], (x,), f[2] if len(f) > 2 else '', None))
    if isinstance(f, tuple) and f and f[0] == 'lam' and f[1] == 1:
        return _subst(f[2], x)
    return ('call', 'apply', (f, x), '', None)


def _try_for_each(v):
    """(next-step value, body applied to the step) when `v` is `it.try_for_each(f)` with a branch-free closure f: the loop
    `for e in it { f(e)? }`.  None otherwise."""
    for _ in range(6):
        if isinstance(v, tuple) and v and v[0] == 'try':
            v = v[1]
        elif is_call(v) and v[1].split('::')[-1] in ('with_span', 'with_file', 'map_err') and v[2]:
            v = v[2][0]
        else:
            break
    if not (is_call(v) and v[1].split('::')[-1] == 'try_for_each' and 'Iterator' in v[1] and len(v[2]) == 2):
        return None
    lam = norm(v[2][1])
    if not (isinstance(lam, tuple) and lam and lam[0] == 'lam' and lam[1] == 1):
        return None
    it = norm(('call', '<I as std::iter::IntoIterator>::into_iter', (v[2][0],), '', None))
    nxt = ('call', 'std::iter::Iterator::next', (it,), '', None)
    return nxt, _apply(lam, nxt)


def _trace_entry(c):
    nm = c[1].split('::')[-1]
    a = ', '.join(_clip(S(x), 90) for x in c[2])
    return '%s(%s)' % (nm.split('.')[-1] if not c[1].startswith('<') else nm, _clip(a, 240))


def expand_result(v, top=True, kind='R'):
    """A returned combinator chain over Result/Option as the decisions it stands for:
    x.and_then(f) = match x { Ok(v) => f(v), Err(e) => Err(e) },  x.map(f) = match x { Ok(v) => Ok(f(v)), e => e }.
    Returns [(extra conditions, value or None for the failing side, text of the failed operand)]; one entry when there is
    nothing to expand.  `v` is a normalised value."""
    for _ in range(6):      # error decorations around the chain (raw, not yet normalised value)
        if is_call(v) and v[1].split('::')[-1] in ('with_span', 'with_file', 'map_err') and v[2]:
            v = v[2][0]
        else:
            break
    if isinstance(v, tuple) and v and v[0] == 'try':
        v = v[1]
    if isinstance(v, tuple) and v and v[0] == 'call' and len(v[2]) == 2 and v[1].split('::')[-1].split('.')[-1] in ('ok_or', 'ok_or_else') and 'Option' in v[1]:
        # x.ok_or(e) = match x { Some(v) => Ok(v), None => Err(e) }
        x = norm(v[2][0])
        fail = v[2][1]
        if isinstance(fail, tuple) and fail and fail[0] == 'agg' and fail[1].startswith('closure:'):
            fx = _FX[0]
            cf = fx.F.get(fail[1][8:]) if fx is not None else None
            if cf is not None:
                rr = [r0 for k0, p0, r0 in Explorer(cf, facts=fx, max_paths=8).run() if k0 == 'RET']
                if len(rr) == 1:
                    fail = rr[0]
        out = []
        for conds, xv, failed in expand_result(v[2][0], top=False, kind='O'):
            if xv is None:
                out.append((conds, None, fail))
            else:
                payload = xv[2][0] if (isinstance(xv, tuple) and xv[0] == 'agg' and xv[1].endswith('Option::Some') and xv[2]) else xv
                out.append((conds, ('agg', 'adt:std::result::Result::Ok', (payload,)), None))
        return out
    if isinstance(v, tuple) and v and v[0] == 'call' and len(v[2]) == 2 and v[1].split('::')[-1].split('.')[-1] in ('and_then', 'map') \
            and ('Result' in v[1] or 'Option' in v[1]):
        kind = 'O' if 'Option' in v[1] else 'R'
        good, bad = ('Some', 'None') if kind == 'O' else ('Ok', 'Err')
        is_map = v[1].split('::')[-1].split('.')[-1] == 'map'
        out = []
        for conds, xv, failed in expand_result(v[2][0], top=False, kind=kind):
            if xv is None:
                out.append((conds, None, failed))
                continue
            # xv stands for the payload (payload and carrier are written alike, see norm)
            payload = xv[2][0] if (isinstance(xv, tuple) and xv[0] == 'agg' and xv[1].endswith(('Result::Ok', 'Option::Some')) and xv[2]) else xv
            r = _apply(norm(v[2][1]), payload)
            if is_map:
                out.append((conds, ('agg', 'adt:std::%s' % ('option::Option::Some' if kind == 'O' else 'result::Result::Ok'), (r,)), None))
            else:
                for c2, r2, f2 in ([([], r, None)] if not (is_call(r) and r[1].split('::')[-1].split('.')[-1] in ('and_then', 'map')) else expand_result(r, top=True)):
                    out.append((conds + c2, r2, f2))
        return out
    v = norm(v)
    if isinstance(v, tuple) and v and v[0] == 'agg' and v[1].endswith(('Result::Err', 'Option::None')):
        return [([], None, v)]
    if top or not isinstance(v, tuple) or not v or v[0] == 'agg':
        return [([], v, None)]
    # an opaque Result/Option inside a chain: both outcomes
    good, bad = ('Some', 'None') if kind == 'O' else ('Ok', 'Err')
    return [(['%s=%s' % (S(v), good)], v, None), (['%s=%s' % (S(v), bad)], None, v)]


def decision_table(ctx, fn, max_visits=1, full=None, plain=False, table=False, config=None):
    prev = _ACC_ON[0]
    _ACC_ON[0] = bool(table)
    prevc = _CFG[0]
    if config is not None:
        _CFG[0] = config
    try:
        rows = _decision_table(ctx, fn, max_visits, full, plain)
    finally:
        _ACC_ON[0] = prev
        _CFG[0] = prevc
    if table:
        # loop-carried locals (`?name`) by position, not by their source names
        names = set()
        for r in rows:
            names |= set(r.get('state', {}))
            for f in ('conds', 'effects', 'trace'):
                for x in r.get(f, []):
                    names |= set(re.findall(r'\?([A-Za-z_]\w*)', x))
            names |= set(re.findall(r'\?([A-Za-z_]\w*)', r.get('value', '') or ''))
        idx = {n: i for i, n in sorted(fn.names.items())}
        order = sorted((n for n in names if n in idx), key=lambda n: idx[n])
        if order:
            ren = {n: 'v%d' % (k + 1) for k, n in enumerate(order)}
            rx = re.compile(r'\?(%s)\b' % '|'.join(re.escape(n) for n in sorted(ren, key=len, reverse=True)))

            def sub(t):
                return rx.sub(lambda m: '?' + ren[m.group(1)], t) if isinstance(t, str) else t
            for r in rows:
                for f in ('conds', 'effects', 'trace', 'checks'):
                    if f in r:
                        r[f] = [sub(x) for x in r[f]]
                r['value'] = sub(r.get('value', ''))
                if 'state' in r:
                    r['state'] = {ren.get(k, k): sub(v) for k, v in r['state'].items()}
    return rows


def _decision_table(ctx, fn, max_visits=1, full=None, plain=False):
    """full: also havoc loop-carried variables at loop heads, record every call with its arguments (`trace`) and the
    final values of the loop-carried variables (`state`): used for printers and the text/debug-symbol plumbing."""
    if full is None:
        full = bool(FULL.match(fn.path) or re.match(ACCESSORS, fn.path))
    rows = []
    fx = ctx.facts(_CFG[0]) if _CFG[0] else ctx.facts()
    _FX[0] = fx

    def with_closure_errors(v):
        """Error variants constructed inside closures handed to ok_or_else / map_err are part of the outcome."""
        extra = []
        for x in walk(v):
            if x[0] == 'agg' and x[1].startswith('closure:'):
                cf = fx.F.get(x[1][8:])
                if cf is not None:
                    for k2, p2, r2 in Explorer(cf, facts=fx, max_paths=64).run():
                        if k2 == 'RET' and isinstance(r2, tuple):
                            extra += err_variants(r2)
        return extra
    for kind, p, ret in explore(ctx, fn, max_visits=max_visits, havoc=full, max_paths=6000, follow_break=True, facts=fx):
        if p is None:
            rows.append({'conds': ['<path explosion>'], 'checks': [], 'out': 'toomany'})
            continue
        conds = ['%s=%s' % canon_cond(w, l) for w, l in p.conds]
        tfe_rows = []
        for ci, (w, l) in enumerate(p.conds):
            # `it.try_for_each(f)?` is the loop `for e in it { f(e)? }`: passing it = the iterator is exhausted, failing it = one
            # step whose body fails; the step whose body succeeds is the loop row
            t = _try_for_each(w) if isinstance(w, tuple) and w and w[0] == 'try' and l in ('Continue', 'Break') else None
            if t is not None:
                nxt, body = t
                step = [S(nxt) + '=Some', S(body) + '=%s']
                tfe_rows.append((ci, nxt, body))
                conds[ci] = (S(nxt) + '=None') if l == 'Continue' else '\x00'.join(step) % 'Err'
        conds = [c for c0 in conds for c in c0.split('\x00')]
        checks = []
        for e in p.events:
            if e[0] == 'try':
                ev = err_variants(e[1])
                s = S(e[1])
                if len(s) > 260:
                    s = s[:260] + '…'
                checks.append(s)
        out = outcome(kind, norm(ret) if ret_kind(ret) != 'residual' else ret)
        if kind == 'RET' and isinstance(ret, tuple) and ret_kind(ret) == 'residual':
            # the error raised by the failing `?`: named by the decoration closest to the `?` (map_err / ok_or / ok_or_else)
            x = ret
            for _ in range(6):
                # innermost failing `?`: residual(.. try(residual(.. try(x)))) when the error came up through inlined helpers
                inner = None
                for sub in walk(x[1] if x[0] == 'residual' else x):
                    if sub[0] == 'try':
                        inner = sub[1]
                        break
                if inner is None:
                    break
                x = inner
                if not (isinstance(x, tuple) and x and x[0] == 'residual'):
                    break
            vs = []
            for _ in range(8):
                if isinstance(x, tuple) and x and x[0] == 'agg' and x[1].endswith(('Result::Err',)):
                    vs = err_variants(x) + with_closure_errors(x)      # a literal Err(..) returned by an inlined helper
                    break
                if not is_call(x) or x[1].split('::')[-1] not in DECOR or not x[2]:
                    break
                last = x[1].split('::')[-1]
                if last in ('map_err', 'ok_or', 'ok_or_else') and len(x[2]) > 1:
                    vs = err_variants(x[2][1]) + with_closure_errors(x[2][1])
                    break
                x = x[2][0]
            out = 'err:' + ','.join(dict.fromkeys(vs))
        effects = []
        for e in p.events:
            if e[0] == 'call' and e[1].startswith('ast::Scope::') and e[1].split('::')[-1] in SCOPE_EFFECTS:
                effects.append('%s(%s)' % (e[1].split('::')[-1], ', '.join(_clip(N(a), 80) for a in e[2][1:])))
        val = ''
        if kind == 'RET' and isinstance(ret, tuple) and not out.startswith('err'):
            val = N(ret)
            if len(val) > 360:
                import hashlib
                val = val[:300] + '…#' + hashlib.sha1(val.encode()).hexdigest()[:10]
        writes = []
        for key, v in p.env.items():
            if isinstance(key, tuple) and isinstance(key[0], int) and 1 <= key[0] <= fn.argc:
                fields = [q.split(':', 1)[1] for q in key[1] if q.startswith('.') and ':' in q]
                if fields:
                    writes.append('%s.%s = %s' % (fn.names.get(key[0], 'arg%d' % key[0]), '.'.join(fields), _clip(N(v), 80)))
        row = {'conds': conds, 'checks': checks, 'effects': effects + sorted(writes), 'out': out, 'value': val}
        if full:
            tr = []
            for e in p.events:
                if e[0] == 'call' and e[1].endswith('::entry') and ('HashMap' in e[1] or 'BTreeMap' in e[1]):
                    continue      # the look-up half of entry(): shows as the contains_key test; the write is VacantEntry::insert
                if e[0] == 'call' and e[1].split('::')[-1] not in DECOR and ((len(e) > 6 and e[6]) or ('VacantEntry' in e[1] and e[1].endswith('::insert'))):
                    nv = norm(('call', e[1], e[2], '', None))
                    if nv[0] != 'call':
                        while isinstance(nv, tuple) and nv and nv[0] != 'call':      # an entry component of an iterator step: the step
                            nv = nv[1] if len(nv) > 1 else None
                        if nv is None:
                            continue
                    if nv[1].split('::')[-1].split('.')[-1] in ('panic', 'panic_fmt', 'panic_display', 'assert_failed', 'unreachable_display', 'expect_failed', 'unwrap_failed'):
                        nv = (nv[0], nv[1], ())      # the message text (it names source variables) is not behaviour
                    a = ', '.join(_clip(S(x), 90) for x in nv[2])
                    nm = nv[1].split('::')[-1]
                    tr.append('%s(%s)' % (nm.split('.')[-1] if not e[1].startswith('<') else nm, _clip(a, 240)))
            # effectful calls (a `&mut` argument or a unit result) in order, one entry per call.  Value-only calls are not listed:
            # they matter through the conditions, the returned value and the arguments of effectful calls they flow into
            row['trace'] = tr
            st = {}
            for loc, v in p.env.items():
                if isinstance(loc, int) and loc in fn.names:
                    init = ('havoc', fn.names[loc])
                    if any(x == init for x in [init]) and isinstance(v, tuple) and v != init and any(e == init for e in [init]):
                        pass
            # final values of loop-carried variables that were havocked on this path
            from .core import Explorer as _E
            row['state'] = {}
            for loc, name in fn.names.items():
                v = p.env.get(loc)
                if isinstance(v, tuple) and name in getattr(p, 'havocked', ()):
                    row['state'][name] = _clip(N(v), 120)
        if tfe_rows or (kind == 'RET' and isinstance(ret, tuple) and _try_for_each(ret) is not None):
            def steps(tr, nxt, body, some):
                out, cut = [], None
                for t0 in tr:
                    if t0.startswith('try_for_each(') and cut is None:
                        cut = len(out)
                        out.append(_trace_entry(nxt))
                        if some and is_call(body):
                            out.append(_trace_entry(body))
                    else:
                        out.append(t0)
                return out, cut
            for ci, nxt, body in tfe_rows:
                failing = p.conds[ci][1] == 'Break'
                if 'trace' in row:
                    tr, cut = steps(row['trace'], nxt, body, failing)
                    if not failing and cut is not None:
                        # the step whose body succeeds: everything up to the loop, then back to the loop head
                        r2 = dict(row)
                        r2['conds'] = ['%s=%s' % canon_cond(w, l) for w, l in p.conds[:ci] if _try_for_each(w) is None] + [S(nxt) + '=Some', S(body) + '=Ok']
                        r2['out'], r2['value'], r2['effects'] = 'loop', '', []
                        r2['trace'] = tr[:cut] + [_trace_entry(nxt)] + ([_trace_entry(body)] if is_call(body) else [])
                        rows.append(r2)
                    row['trace'] = tr
                elif not failing:
                    r2 = dict(row)
                    r2['conds'] = ['%s=%s' % canon_cond(w, l) for w, l in p.conds[:ci] if _try_for_each(w) is None] + [S(nxt) + '=Some', S(body) + '=Ok']
                    r2['out'], r2['value'], r2['effects'] = 'loop', '', []
                    rows.append(r2)
            t = _try_for_each(ret) if kind == 'RET' and isinstance(ret, tuple) and (not p.conds or True) else None
            if t is not None and ret_kind(ret) != 'residual':
                nxt, body = t
                for extra, o, v, some in (([S(nxt) + '=None'], 'ok:tuple', 'Ok{tuple{}}', False),
                                          ([S(nxt) + '=Some', S(body) + '=Err'], 'err:' + ','.join(dict.fromkeys(err_variants(ret) + with_closure_errors(ret))), '', True),
                                          ([S(nxt) + '=Some', S(body) + '=Ok'], 'loop', '', True)):
                    r2 = dict(row)
                    r2['conds'] = conds + extra
                    r2['out'], r2['value'] = o, v
                    if 'trace' in r2:
                        r2['trace'] = steps(row['trace'], nxt, body, some)[0]
                    rows.append(r2)
                continue
        if kind == 'RET' and isinstance(ret, tuple) and is_call(ret) and ret[1].split('::')[-1] == 'find_map' and 'Iterator' in ret[1] and len(ret[2]) == 2:
            # it.find_map(f) is the loop `for e in it { if let Some(v) = f(e) { return Some(v) } } None`: its three single-visit rows
            it = norm(('call', '<I as std::iter::IntoIterator>::into_iter', (ret[2][0],), '', None))
            nxt = ('call', 'std::iter::Iterator::next', (it,), '', None)
            fe = _apply(norm(ret[2][1]), nxt)
            base = dict(row)
            for extra, o, v in (([S(nxt) + '=None'], 'val:None', 'None{}'),
                                ([S(nxt) + '=Some', S(fe) + '=Some'], 'val:Some', 'Some{%s}' % S(fe)),
                                ([S(nxt) + '=Some', S(fe) + '=None'], 'loop', '')):
                r2 = dict(base)
                r2['conds'] = conds + extra
                r2['out'] = o
                r2['value'] = v
                if 'trace' in r2:
                    r2['trace'] = [t0 for t0 in r2['trace'] if not t0.startswith('find_map(')] + ['next(%s)' % S(it)]
                rows.append(r2)
            continue
        if kind == 'RET' and out.startswith('val') and isinstance(ret, tuple):
            # decisions hidden in a returned and_then / map chain
            ex = expand_result(ret)
            rty = fn.locals[0] if fn.locals else ''
            if rty.startswith('std::result::Result<'):
                # `x` returned as the function's Result is `Ok(x?)`: the decision "x is Ok" and the payload (unit for Result<(), _>)
                ex2 = []
                for c0, x, f0 in ex:
                    if x is not None and is_call(x):
                        payload = ('agg', 'tuple', ()) if rty.startswith('std::result::Result<(),') else x
                        ex2.append((c0 + ['%s=Ok' % S(x)], ('agg', 'adt:std::result::Result::Ok', (payload,)), None))
                        ex2.append((c0 + ['%s=Err' % S(x)], None, x))
                    else:
                        ex2.append((c0, x, f0))
                ex = ex2
            if len(ex) > 1:
                for extra, xv, failed in ex:
                    r2 = dict(row)
                    r2['conds'] = conds + extra
                    if xv is None:
                        r2['out'] = 'err:' + ','.join(dict.fromkeys(err_variants(failed) if isinstance(failed, tuple) else []))
                        r2['value'] = ''
                    else:
                        r2['out'] = outcome('RET', xv)
                        r2['value'] = _clip(S(xv), 360)
                    rows.append(r2)
                continue
        rows.append(row)
    if plain:
        for row in rows:
            for f in ('conds', 'checks', 'effects', 'trace'):
                if f in row:
                    row[f] = [unq(x) for x in row[f]]
            row['value'] = unq(row.get('value', ''))
    return rows


SCOPE_EFFECTS = ('push_scope', 'pop_scope', 'push_main_scope', 'pop_main_scope', 'insert_variable', 'insert_witness', 'insert_parameter', 'insert_alias', 'insert_function', 'track_call')


# `checks` (the operands of the `?`s passed on the path) stay in the rows for the rules that look at them; the comparison uses
# the conditions they are rendered as (`x?` = "x is Ok"), so that `x?` and an explicit match on x give the same row
ALL_FIELDS = ('conds', 'out', 'effects', 'value', 'trace', 'state')
GUARD_FIELDS = ('conds', 'out', 'effects', 'value')


def row_key(r, fields=ALL_FIELDS):
    r = dict(r)
    # conditions are pure tests: compared as a set (order of independent tests and repeated tests do not matter)
    r['conds'] = sorted(set(r.get('conds', [])))
    if str(r.get('out', '')).startswith('val') and 'value' not in fields:
        # the path returns a computed Result/Option/value (combinator chain, helper result): what is returned is the outcome
        r['out'] = '%s = %s' % (r['out'], r.get('value', ''))
    return json.dumps([r.get(f, {} if f == 'state' else ([] if f in ('conds', 'checks', 'effects', 'trace') else '')) for f in ALL_FIELDS if f in fields] + [[f for f in ALL_FIELDS if f in fields]], ensure_ascii=False, sort_keys=True)


EXTRA = re.compile(r'^(value::UIntValue::parse_decimal|value::Value::(from_const_expr|is_of_type|parse_from_str)|types::AliasedType::(resolve|resolve_builtin)(::\{closure#\d+\})?|types::BuiltinAlias::resolve|types::UIntType::(from_bit_width|bit_width|byte_width)|num::(NonZero)?Pow2Usize::new|<num::U256 as std::str::FromStr>::from_str|TemplateProgram::(new|instantiate)|CompiledProgram::new|<error::Span as std::convert::From<.*>>::from|<value::UIntValue as std::convert::TryFrom<&\[u8\]>>::try_from|ast::Scope::(get_variable|get_function|is_topmost)(::\{closure#\d+\})?)$')


def guard_functions(fx):
    """Non-generated functions that construct an error::Error variant or are part of the analysis front end."""
    out = []
    for path, fn in fx.F.items():
        if fn.macro or '::promoted[' in path or fn.kind in ('Const', 'AssocConst'):
            continue
        if path.startswith(('jet::', 'named::', 'compile::', 'dummy_env::', 'debug::', 'serde::')) and not FULL.match(path):
            continue
        hit = False
        for b in fn.blocks.values():
            if b['cleanup']:
                continue
            for st in b['stmts']:
                rv = st['rv']
                if rv['k'] == 'agg' and rv['kind'].startswith('adt:error::Error::'):
                    hit = True
                ops = rv.get('ops', []) + ([rv['o']] if 'o' in rv else [])
                for o in ops:
                    if o.get('k') == 'const' and re.search(r'error::Error::\w+$', o.get('def') or ''):
                        hit = True
            t = b['term']
            if t['k'] == 'call':
                for o in t['args']:
                    if o.get('k') == 'const' and re.search(r'error::Error::\w+$', o.get('def') or ''):
                        hit = True
        if hit or EXTRA.match(path) or FULL.match(path) or re.match(ACCESSORS, path) or re.match(r'<ast::\w+ as ast::AbstractSyntaxTree>::analyze$', path) or path.startswith('ast::Scope::') or path in ('ast::Program::analyze', 'ast::analyze_named_module'):
            out.append(path)
    return sorted(out)


def compare(ctx, rid, paths, table, what, fields=ALL_FIELDS, rowsel=None, config=None):
    """Compare current decision tables of `paths` with the frozen table; one obligation per function plus one per differing row."""
    fx = ctx.facts(config) if config else ctx.facts()
    n = 0
    for path in paths:
        fn = fx.F.get(path)
        frozen = table.get(path)
        if fn is None and '{closure#' in path and frozen is not None:
            # a closure moved with the code around it (extracted helper, closure numbering): accept a closure that did not
            # exist in the reviewed tree and has exactly the reviewed rows
            known = (getattr(fx, 'reviewed_fns', None) or {}).get('simfony', set())
            want = sorted(row_key(r, fields) for r in frozen['rows'])
            for q, qf in fx.F.items():
                if '{closure#' in q and q not in known and not qf.macro:
                    if sorted(row_key(r, fields) for r in decision_table(ctx, qf, frozen.get('max_visits', 1), bool(FULL.match(path)), table=True, config=config)) == want:
                        fn = qf
                        break
            if fn is not None:
                ctx.ob(rid, 'table:' + path, True, '%s: closure found as %s with the reviewed rows' % (what, fn.path), fn.where())
                continue
        if fn is not None and '{closure#' in path and path.split('::{closure#')[0] in fx.F:
            _FX[0] = fx
            res0 = Explorer(fn, facts=fx, max_paths=8).run()
            if len(res0) == 1 and res0[0][0] == 'RET' and not res0[0][1].conds:
                ctx.ob(rid, 'table:' + path, True, '%s: closure without a decision: rendered as a lambda term inside the rows of %s' % (what, path.split('::{closure#')[0]), fn.where())
                continue
        if fn is None and '{closure#' in path and path.split('::{closure#')[0] in fx.F:
            # the closure is gone (its code was written inline, or replaced): the rows of the enclosing function, which render
            # closure arguments and the errors they raise, are compared on their own
            ctx.ob(rid, 'table:' + path, True, '%s: closure no longer exists; covered by the rows of %s' % (what, path.split('::{closure#')[0]), fx.F[path.split('::{closure#')[0]].where())
            continue
        if fn is None:
            ctx.ob(rid, 'fn-missing:' + path, False, 'front-end function listed in the guard table no longer exists', None)
            continue
        if frozen is None and '{closure#' not in path and path not in ((getattr(fx, 'reviewed_fns', None) or {}).get('simfony') or {path}):
            # a function that did not exist in the reviewed tree: its body is inlined into the rows of its callers
            continue
        if frozen is None:
            ctx.ob(rid, 'fn-unlisted:' + path, False, 'function constructs errors but has no reviewed decision table', fn.where())
            continue
        cur = decision_table(ctx, fn, frozen.get('max_visits', 1), table=True, config=config)
        frozen_rows = frozen['rows']
        if rowsel is not None:
            # the property depends on some arms of this function only: compare those rows
            cur = [r for r in cur if rowsel(path, r)]
            frozen_rows = [r for r in frozen_rows if rowsel(path, r)]
            if not frozen_rows:
                ctx.ob(rid, 'rows-selected:' + path, False, 'row selection matches reviewed rows', fn.where(), 'no reviewed row selected')
        if frozen.get('max_visits', 1) == 1:
            # every block is visited once: a path that takes two different outcomes of one tested value is infeasible
            cur = [r for r in cur if not _contradictory(r)]
            frozen_rows = [r for r in frozen_rows if not _contradictory(r)]
        n += len(cur)
        a = {}
        for r in cur:
            a[row_key(r, fields)] = a.get(row_key(r, fields), 0) + 1
        b = {}
        for r in frozen_rows:
            b[row_key(r, fields)] = b.get(row_key(r, fields), 0) + 1
        missing = [json.loads(k) for k in b if a.get(k, 0) < b[k]]
        extra = [json.loads(k) for k in a if b.get(k, 0) < a[k]]
        ctx.ob(rid, 'table:' + path, not missing and not extra, '%s: %d decision rows equal the reviewed table' % (what, len(cur)), fn.where())
        for m in missing[:6]:
            ctx.ob(rid, 'row-missing:%s:%s' % (path, dict(zip(m[-1], m[:-1])).get('out')), False, 'reviewed decision row no longer present (check removed or changed)', fn.where(),
                   _fmt_row(m))
        for m in extra[:6]:
            ctx.ob(rid, 'row-new:%s:%s' % (path, dict(zip(m[-1], m[:-1])).get('out')), False, 'decision row not in the reviewed table (new or weakened condition)', fn.where(),
                   _fmt_row(m))
    return n


def _contradictory(r):
    """Two different outcomes of one tested value on a single-visit path.  Only complementary outcomes count: a payload is
    written like its carrier (`x=Some` and `x=Left` are a match on an Option and then on its content)."""
    comp = {('Some', 'None'), ('Ok', 'Err'), ('T', 'F'), ('0', '!0')}
    seen = {}
    for c in r.get('conds', []):
        t, _, lab = c.rpartition('=')
        for prev in seen.get(t, ()):
            if (prev, lab) in comp or (lab, prev) in comp or prev == '!' + lab or lab == '!' + prev:
                return True
        seen.setdefault(t, []).append(lab)
    return False


def _fmt_row(m):
    names = m[-1]
    d = dict(zip(names, m[:-1]))
    out = 'when [%s]' % ' & '.join(d.get('conds', []))
    if d.get('checks'):
        out += ' after checks %s' % d['checks']
    if d.get('effects'):
        out += ' with scope effects %s' % d['effects']
    out += ' => %s' % d.get('out')
    if d.get('value'):
        out += '  value %s' % d['value'][:300]
    if d.get('trace'):
        out += '  calls %s' % d['trace'][-6:]
    if d.get('state'):
        out += '  state %s' % d['state']
    return out


def load_table(config=None):
    return json.load(open(TABLE))['functions' if not config or config == 'default' else 'functions_' + config]
