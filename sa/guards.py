"""RF-C: decision tables (guard inventory) of front-end functions.

For a function, every explored path gives a row: canonical path conditions, the ordered list of `?`-checked
operations that were passed, and the outcome (constructed Ok value kind, Err variant, panic, loop cut).
The multiset of rows is compared with the frozen reviewed table."""
import json
import os
import re

from .core import Explorer, sv, walk
from .util import *
from .props.layout import S, strip

VERIF = os.path.dirname(os.path.dirname(os.path.abspath(__file__)))
TABLE = os.path.join(VERIF, 'tables', 'guards.json')

SWAP = {'Gt': 'Lt', 'Ge': 'Le'}
CALLSWAP = {'gt': 'lt', 'ge': 'le'}


def canon_cond(w, lab):
    """Canonical (text, truth) of a boolean condition; enum switches stay (text, variant label)."""
    while isinstance(w, tuple) and w and w[0] == 'try':
        w = w[1]
    inst = w[3] if (isinstance(w, tuple) and w and w[0] == 'call' and len(w) > 3) else ''
    w = strip(w)
    if lab in ('0', '!0'):
        truth = lab == '!0'
        # unwrap Not
        while isinstance(w, tuple) and w[0] == 'un' and w[1] == 'Not':
            w = w[2]
            truth = not truth
        if isinstance(w, tuple) and w[0] == 'bin':
            op, a, b = w[1], w[2], w[3]
            if op in SWAP:
                op, a, b = SWAP[op], b, a
            if op == 'Ne':
                op, truth = 'Eq', not truth
            if op == 'Eq' and S(a) > S(b):
                a, b = b, a
            return ('%s(%s, %s)' % (op, S(a), S(b)), 'T' if truth else 'F')
        if is_call(w):
            last = w[1].split('::')[-1]
            if last in ('ne', 'eq', 'lt', 'le', 'gt', 'ge') and len(w[2]) == 2:
                a, b = w[2]
                ty = ''
                m = re.search(r'for &?([\w:]+)>', inst or '') or re.search(r'<([\w:<>, &\']+) as std::cmp::Partial', inst or '')
                if m:
                    ty = '<' + m.group(1).split('::')[-1] + '>'
                if last in CALLSWAP:
                    last, a, b = CALLSWAP[last], b, a
                if last == 'ne':
                    last, truth = 'eq', not truth
                if last == 'eq' and S(a) > S(b):
                    a, b = b, a
                return ('%s%s(%s, %s)' % (last, ty, S(a), S(b)), 'T' if truth else 'F')
        return (S(w), 'T' if truth else 'F')
    return (S(w), lab)


def callee_chain(v, depth=0):
    """Short rendering of a `?` operand: outer call names with their rendered arguments."""
    return S(v)


def outcome(kind, ret):
    if kind == 'RET':
        rk = ret_kind(ret)
        ev = err_variants(ret)
        if rk == 'err' or (ev and rk != 'ok'):
            return 'err:' + ','.join(ev)
        if rk == 'residual':
            return 'residual'
        if rk == 'ok':
            v = ret[2][0] if ret[2] else None
            if isinstance(v, tuple) and v and v[0] == 'agg':
                return 'ok:' + v[1].split('::')[-1]
            return 'ok'
        if isinstance(ret, tuple) and ret[0] == 'agg':
            return 'val:' + ret[1].split('::')[-1]
        if isinstance(ret, tuple) and ret[0] == 'const':
            return 'val:' + ret[1]
        return 'val'
    if kind == 'DIVERGE':
        return 'panic'
    if kind == 'LOOP':
        return 'loop'
    return kind.lower()


FULL = re.compile(r'^(<types::StructuralType as types::TypeConstructible>::\w+(::\{closure#\d+\})*|<value::StructuralValue as value::ValueConstructible>::\w+(::\{closure#\d+\})*|<value::Value as value::ValueConstructible>::\w+(::\{closure#\d+\})*|<types::ResolvedType as types::TypeConstructible>::\w+|value::destruct::\w+(::\{closure#\d+\})*|<value::StructuralValue as std::convert::From<(bool|value::UIntValue)>>::from|<types::StructuralType as std::convert::From<types::UIntType>>::from|array::\w+::<.*>::(fold|unfold|from_slice|is_complete)|<array::\w+<.*> as miniscript::iter::TreeLike>::as_node|debug::(DebugSymbols::insert|remove_excess_whitespace|CallTracker::(track_call|with_file|get_cmr|next_id_cmr)|TrackedCall::map_value)(::\{closure#\d+\})*|<A as parse::ParseFromStr>::parse_from_str|TemplateProgram::new|TemplateProgram::instantiate|CompiledProgram::new|<value::Value as std::fmt::Display>::fmt(::\{closure#\d+\})*|<parse::ExprTree<\'_> as std::fmt::Display>::fmt|types::TypeInner::<A>::display|<pattern::Pattern as std::fmt::Display>::fmt|error::Span::to_slice|<error::RichError as std::fmt::Display>::fmt|<witness::(WitnessValues|Arguments) as std::fmt::Display>::fmt|<witness::(WitnessValues|Arguments) as parse::ParseFromStr>::parse_from_str(::\{closure#\d+\})*|value::Value::parse_from_str|witness::<impl parse::ParseFromStr for types::ResolvedType>::parse_from_str)$')


def decision_table(ctx, fn, max_visits=1, full=None):
    """full: also havoc loop-carried variables at loop heads, record every call with its arguments (`trace`) and the
    final values of the loop-carried variables (`state`): used for printers and the text/debug-symbol plumbing."""
    if full is None:
        full = bool(FULL.match(fn.path))
    rows = []
    for kind, p, ret in explore(ctx, fn, max_visits=max_visits, havoc=full, max_paths=6000):
        if p is None:
            rows.append({'conds': ['<path explosion>'], 'checks': [], 'out': 'toomany'})
            continue
        conds = ['%s=%s' % canon_cond(w, l) for w, l in p.conds]
        checks = []
        for e in p.events:
            if e[0] == 'try':
                ev = err_variants(e[1])
                s = S(e[1])
                if len(s) > 260:
                    s = s[:260] + '…'
                checks.append(s)
        out = outcome(kind, ret)
        effects = []
        for e in p.events:
            if e[0] == 'call' and e[1].startswith('ast::Scope::') and e[1].split('::')[-1] in SCOPE_EFFECTS:
                effects.append('%s(%s)' % (e[1].split('::')[-1], ', '.join(S(a)[:80] for a in e[2][1:])))
        val = ''
        if kind == 'RET' and isinstance(ret, tuple):
            val = S(ret)
            if len(val) > 360:
                import hashlib
                val = val[:300] + '…#' + hashlib.sha1(val.encode()).hexdigest()[:10]
        writes = []
        for key, v in p.env.items():
            if isinstance(key, tuple) and isinstance(key[0], int) and 1 <= key[0] <= fn.argc:
                fields = [q.split(':', 1)[1] for q in key[1] if q.startswith('.') and ':' in q]
                if fields:
                    writes.append('%s.%s = %s' % (fn.names.get(key[0], 'arg%d' % key[0]), '.'.join(fields), S(v)[:80]))
        row = {'conds': conds, 'checks': checks, 'effects': effects + sorted(writes), 'out': out, 'value': val}
        if full:
            tr, pure = [], set()
            for e in p.events:
                if e[0] == 'call':
                    a = ', '.join(S(x)[:90] for x in e[2])
                    txt = '%s(%s)' % (e[1].split('::')[-1] if not e[1].startswith('<') else e[1].split('>::')[-1], a[:240])
                    if len(e) > 6 and e[6]:
                        tr.append(txt)
                    else:
                        pure.add(txt)
            # effectful calls (a `&mut` argument or a unit result) in order, one entry per call; value-only calls as a set:
            # evaluating `x.get()` once into a local or at every use, before or after `y.len()`, is the same computation
            row['trace'] = tr + ['~' + x for x in sorted(pure)]
            st = {}
            for loc, v in p.env.items():
                if isinstance(loc, int) and loc in fn.names:
                    init = ('havoc', fn.names[loc])
                    if any(x == init for x in [init]) and isinstance(v, tuple) and v != init and any(e == init for e in [init]):
                        pass
            # final values of loop-carried variables that were havocked on this path
            from .core import Explorer as _E
            row['state'] = {}
            for loc, name in fn.names.items():
                v = p.env.get(loc)
                if isinstance(v, tuple) and name in getattr(p, 'havocked', ()):
                    row['state'][name] = S(v)[:120]
        rows.append(row)
    return rows


SCOPE_EFFECTS = ('push_scope', 'pop_scope', 'push_main_scope', 'pop_main_scope', 'insert_variable', 'insert_witness', 'insert_parameter', 'insert_alias', 'insert_function', 'track_call')


ALL_FIELDS = ('conds', 'checks', 'out', 'effects', 'value', 'trace', 'state')
GUARD_FIELDS = ('conds', 'checks', 'out', 'effects')


def row_key(r, fields=ALL_FIELDS):
    r = dict(r)
    # conditions are pure tests: compared as a set (order of independent tests and repeated tests do not matter)
    r['conds'] = sorted(set(r.get('conds', [])))
    return json.dumps([r.get(f, {} if f == 'state' else ([] if f in ('conds', 'checks', 'effects', 'trace') else '')) for f in ALL_FIELDS if f in fields] + [[f for f in ALL_FIELDS if f in fields]], ensure_ascii=False, sort_keys=True)


EXTRA = re.compile(r'^(value::UIntValue::parse_decimal|value::Value::(from_const_expr|is_of_type|parse_from_str)|types::AliasedType::(resolve|resolve_builtin)(::\{closure#\d+\})?|types::BuiltinAlias::resolve|types::UIntType::(from_bit_width|bit_width|byte_width)|num::(NonZero)?Pow2Usize::new|<num::U256 as std::str::FromStr>::from_str|TemplateProgram::(new|instantiate)|CompiledProgram::new|<error::Span as std::convert::From<.*>>::from|<value::UIntValue as std::convert::TryFrom<&\[u8\]>>::try_from|ast::Scope::(get_variable|get_function|is_topmost)(::\{closure#\d+\})?)$')


def guard_functions(fx):
    """Non-generated functions that construct an error::Error variant or are part of the analysis front end."""
    out = []
    for path, fn in fx.F.items():
        if fn.macro or '::promoted[' in path or fn.kind in ('Const', 'AssocConst'):
            continue
        if path.startswith(('jet::', 'named::', 'compile::', 'dummy_env::', 'debug::', 'serde::')) and not FULL.match(path):
            continue
        hit = False
        for b in fn.blocks.values():
            if b['cleanup']:
                continue
            for st in b['stmts']:
                rv = st['rv']
                if rv['k'] == 'agg' and rv['kind'].startswith('adt:error::Error::'):
                    hit = True
                ops = rv.get('ops', []) + ([rv['o']] if 'o' in rv else [])
                for o in ops:
                    if o.get('k') == 'const' and re.search(r'error::Error::\w+$', o.get('def') or ''):
                        hit = True
            t = b['term']
            if t['k'] == 'call':
                for o in t['args']:
                    if o.get('k') == 'const' and re.search(r'error::Error::\w+$', o.get('def') or ''):
                        hit = True
        if hit or EXTRA.match(path) or FULL.match(path) or re.match(r'<ast::\w+ as ast::AbstractSyntaxTree>::analyze$', path) or path.startswith('ast::Scope::') or path in ('ast::Program::analyze', 'ast::analyze_named_module'):
            out.append(path)
    return sorted(out)


def compare(ctx, rid, paths, table, what, fields=ALL_FIELDS, rowsel=None):
    """Compare current decision tables of `paths` with the frozen table; one obligation per function plus one per differing row."""
    fx = ctx.facts()
    n = 0
    for path in paths:
        fn = fx.F.get(path)
        frozen = table.get(path)
        if fn is None and '{closure#' in path and frozen is not None:
            # a closure moved with the code around it (extracted helper, closure numbering): accept a closure that did not
            # exist in the reviewed tree and has exactly the reviewed rows
            known = (getattr(fx, 'reviewed_fns', None) or {}).get('simfony', set())
            want = sorted(row_key(r, fields) for r in frozen['rows'])
            for q, qf in fx.F.items():
                if '{closure#' in q and q not in known and not qf.macro:
                    if sorted(row_key(r, fields) for r in decision_table(ctx, qf, frozen.get('max_visits', 1), bool(FULL.match(path)))) == want:
                        fn = qf
                        break
            if fn is not None:
                ctx.ob(rid, 'table:' + path, True, '%s: closure found as %s with the reviewed rows' % (what, fn.path), fn.where())
                continue
        if fn is None:
            ctx.ob(rid, 'fn-missing:' + path, False, 'front-end function listed in the guard table no longer exists', None)
            continue
        if frozen is None:
            ctx.ob(rid, 'fn-unlisted:' + path, False, 'function constructs errors but has no reviewed decision table', fn.where())
            continue
        cur = decision_table(ctx, fn, frozen.get('max_visits', 1))
        frozen_rows = frozen['rows']
        if rowsel is not None:
            # the property depends on some arms of this function only: compare those rows
            cur = [r for r in cur if rowsel(path, r)]
            frozen_rows = [r for r in frozen_rows if rowsel(path, r)]
            if not frozen_rows:
                ctx.ob(rid, 'rows-selected:' + path, False, 'row selection matches reviewed rows', fn.where(), 'no reviewed row selected')
        if frozen.get('max_visits', 1) == 1:
            # every block is visited once: a path that takes two different outcomes of one tested value is infeasible
            cur = [r for r in cur if not _contradictory(r)]
            frozen_rows = [r for r in frozen_rows if not _contradictory(r)]
        n += len(cur)
        a = {}
        for r in cur:
            a[row_key(r, fields)] = a.get(row_key(r, fields), 0) + 1
        b = {}
        for r in frozen_rows:
            b[row_key(r, fields)] = b.get(row_key(r, fields), 0) + 1
        missing = [json.loads(k) for k in b if a.get(k, 0) < b[k]]
        extra = [json.loads(k) for k in a if b.get(k, 0) < a[k]]
        ctx.ob(rid, 'table:' + path, not missing and not extra, '%s: %d decision rows equal the reviewed table' % (what, len(cur)), fn.where())
        for m in missing[:6]:
            ctx.ob(rid, 'row-missing:%s:%s' % (path, dict(zip(m[-1], m[:-1])).get('out')), False, 'reviewed decision row no longer present (check removed or changed)', fn.where(),
                   _fmt_row(m))
        for m in extra[:6]:
            ctx.ob(rid, 'row-new:%s:%s' % (path, dict(zip(m[-1], m[:-1])).get('out')), False, 'decision row not in the reviewed table (new or weakened condition)', fn.where(),
                   _fmt_row(m))
    return n


def _contradictory(r):
    seen = {}
    for c in r.get('conds', []):
        t, _, lab = c.rpartition('=')
        if t in seen and seen[t] != lab and '|' not in lab and '|' not in seen[t] and not lab.startswith('!') and not seen[t].startswith('!'):
            return True
        seen.setdefault(t, lab)
    return False


def _fmt_row(m):
    names = m[-1]
    d = dict(zip(names, m[:-1]))
    out = 'when [%s]' % ' & '.join(d.get('conds', []))
    if d.get('checks'):
        out += ' after checks %s' % d['checks']
    if d.get('effects'):
        out += ' with scope effects %s' % d['effects']
    out += ' => %s' % d.get('out')
    if d.get('value'):
        out += '  value %s' % d['value'][:300]
    if d.get('trace'):
        out += '  calls %s' % d['trace'][-6:]
    if d.get('state'):
        out += '  state %s' % d['state']
    return out


def load_table():
    return json.load(open(TABLE))['functions']
