"""E4: compile-fail witnesses (thorough tier). Runs the doc-tests of /verif/witness against /repo's current tree."""
import os
import re
import shutil
import subprocess

from . import extract


def run(ctx, rid, names):
    ctx.rule(rid, 'compile-fail witnesses: the offending construction does not type-check (expected error code) while its twin compiles')
    w = os.path.join(extract.VERIF, 'witness')
    shutil.copyfile(os.path.join(extract.REPO, 'Cargo.lock'), os.path.join(w, 'Cargo.lock'))
    env = dict(os.environ)
    env.update({'CARGO_NET_OFFLINE': 'true', 'CARGO_TARGET_DIR': os.path.join(extract.BUILD, 'target-witness')})
    p = subprocess.run(['cargo', '+nightly', 'test', '--doc', '--offline'], cwd=w, env=env, stdout=subprocess.PIPE, stderr=subprocess.STDOUT, text=True)
    res = {}
    for m in re.finditer(r'^test src/lib\.rs - (W\d) \(line \d+\) - (compile fail|compile) \.\.\. (\w+)', p.stdout, re.M):
        res.setdefault(m.group(1), {})[m.group(2)] = m.group(3)
    for n in names:
        r = res.get(n, {})
        ctx.ob(rid, 'witness:' + n, r.get('compile fail') == 'ok' and r.get('compile') == 'ok', '%s: compile-fail witness rejected with the expected error code and its twin compiles (%s)' % (n, r), 'witness/src/lib.rs', None if r else p.stdout[-600:])
