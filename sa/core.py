"""Core of the rule engine: fact loading, call graph, CFG/dominators, symbolic path explorer."""
import collections
import glob
import json
import os
import re
import sys

from . import extract


def short(c):
    """Strip generic arguments `::<...>` from a def path."""
    prev = None
    while prev != c:
        prev = c
        c = re.sub(r'::<(?!impl )[^<>]*>', '', c)
    return c


class Fn:
    __slots__ = ('path', 'kind', 'loc', 'macro', 'argc', 'locals', 'names', 'blocks', 'crate', '_succ', '_idom', '_preds')

    def __init__(self, d, crate):
        self.path = d['path']
        self.kind = d['kind'].split(' ')[0]
        self.loc = d['loc']
        self.macro = d['macro']
        self.argc = d['argc']
        self.locals = d['locals']
        self.names = {int(k): v for k, v in d['names'].items()}
        self.blocks = {b['id']: b for b in d['blocks']}
        self.crate = crate
        self._succ = None
        self._idom = None
        self._preds = None

    @property
    def file(self):
        return self.loc.split(':')[0]

    @property
    def line(self):
        try:
            return int(self.loc.split(':')[1])
        except Exception:
            return 0

    # ---- CFG over non-cleanup blocks -------------------------------------------------------
    def succ(self):
        if self._succ is None:
            s = {}
            for bid, b in self.blocks.items():
                if b['cleanup']:
                    continue
                t = b['term']
                k = t['k']
                if k == 'call':
                    out = [t['target']] if t['target'] >= 0 else []
                elif k == 'switch':
                    out = [x[1] for x in t['targets']] + [t['otherwise']]
                elif k in ('goto', 'drop', 'assert'):
                    out = [t['target']]
                else:
                    out = []
                s[bid] = [x for x in dict.fromkeys(out) if x in self.blocks and not self.blocks[x]['cleanup']]
            self._succ = s
        return self._succ

    def preds(self):
        if self._preds is None:
            p = collections.defaultdict(list)
            for a, outs in self.succ().items():
                for b in outs:
                    p[b].append(a)
            self._preds = p
        return self._preds

    def reachable_blocks(self):
        seen = set()
        st = [0]
        s = self.succ()
        while st:
            b = st.pop()
            if b in seen:
                continue
            seen.add(b)
            st.extend(s.get(b, []))
        return seen

    def dominators(self):
        """dom[b] = set of blocks dominating b (non-cleanup CFG from entry 0)."""
        if self._idom is None:
            nodes = sorted(self.reachable_blocks())
            dom = {n: set(nodes) for n in nodes}
            dom[0] = {0}
            preds = self.preds()
            changed = True
            while changed:
                changed = False
                for n in nodes:
                    if n == 0:
                        continue
                    ps = [p for p in preds[n] if p in dom]
                    new = set.intersection(*[dom[p] for p in ps]) if ps else set()
                    new = new | {n}
                    if new != dom[n]:
                        dom[n] = new
                        changed = True
            self._idom = dom
        return self._idom

    def dominates(self, a, b):
        d = self.dominators()
        return b in d and a in d[b]

    def calls(self):
        """Yield (block id, callee def path (short), terminator) for every call in non-cleanup blocks."""
        for bid, b in self.blocks.items():
            if b['cleanup']:
                continue
            t = b['term']
            if t['k'] == 'call':
                f = t['f']
                if f['k'] == 'const' and f.get('def'):
                    yield bid, short(f['def']), t
                else:
                    yield bid, '?', t

    def call_sites(self, pred):
        """Calls whose short callee satisfies pred (str suffix or callable)."""
        out = []
        for bid, c, t in self.calls():
            if (callable(pred) and pred(c)) or (isinstance(pred, str) and (c == pred or c.endswith('::' + pred))):
                out.append((bid, c, t))
        return out

    def where(self, line=None):
        return '%s:%s (%s)' % (self.file, line if line else self.line, self.path)


class Facts:
    def __init__(self, config='default'):
        self.config = config
        self.dir = extract.ensure(config)
        self.hash = os.path.basename(os.path.dirname(self.dir))
        self.crates = {}
        for f in sorted(glob.glob(os.path.join(self.dir, 'facts-*.json'))):
            d = json.load(open(f))
            self.crates[d['crate']] = {fn['path']: Fn(fn, d['crate']) for fn in d['fns']}
        # parameters are named positionally from the reviewed tree (tables/params.json): renaming a parameter in /repo
        # leaves every rendered condition unchanged; a changed arity keeps the current names
        self.renamed = {}
        self.reviewed_fns = None
        ptab = os.path.join(os.path.dirname(os.path.dirname(os.path.abspath(__file__))), 'tables', 'params.json')
        if os.path.exists(ptab) and not os.environ.get('VERIF_NO_PARAM_TABLE'):
            frozen = json.load(open(ptab))['params']
            self.reviewed_fns = {crate: set(fns) for crate, fns in frozen.items()}
            for crate, fns in self.crates.items():
                for path, fn in fns.items():
                    names = frozen.get(crate, {}).get(path)
                    if names is None or len(names) != fn.argc:
                        continue
                    for i, nm in enumerate(names, 1):
                        if nm is not None and fn.names.get(i) is not None and fn.names.get(i) != nm:
                            self.renamed.setdefault(path, {})[fn.names[i]] = nm
                            fn.names[i] = nm
        self.F = self.crates['simfony']
        self.grammar = json.load(open(os.path.join(self.dir, 'grammar.json')))
        self._cg = None

    def fn(self, path, crate='simfony'):
        f = self.crates[crate].get(path)
        if f is None:
            raise MissingAnchor('function %s not found in crate %s' % (path, crate))
        return f

    def find(self, regex, crate='simfony'):
        r = re.compile(regex)
        return [f for p, f in self.crates[crate].items() if r.search(p)]

    # ---- call graph -------------------------------------------------------------------
    def callgraph(self, crate='simfony'):
        if self._cg is None:
            self._cg = {}
        if crate in self._cg:
            return self._cg[crate]
        F = self.crates[crate]
        edges = collections.defaultdict(set)
        impls = collections.defaultdict(list)   # (trait short, method) -> [fn paths]
        for p in F:
            m = re.match(r'<(.*) as ([\w:]+)(<.*>)?>::(\w+)$', p)
            if m:
                impls[(m.group(2), m.group(4))].append(p)

        def resolve(c, res):
            if c in F:
                return [c]
            if res:
                return []
            m = re.match(r'<(\w+) as ([\w:]+)(<.*>)?>::(\w+)$', c)
            if m:
                return impls.get((m.group(2), m.group(4)), [])
            m = re.match(r'([\w:]+)::(\w+)$', c)
            if m:
                return impls.get((m.group(1), m.group(2)), [])
            return []

        def ops_of(rv):
            k = rv['k']
            if k in ('use', 'cast', 'repeat'):
                return [rv['o']]
            if k == 'agg':
                return rv['ops']
            if k == 'bin':
                return [rv['a'], rv['b']]
            if k == 'un':
                return [rv['a']]
            return []
        for p, fn in F.items():
            for b in fn.blocks.values():
                t = b['term']
                ops = []
                if t['k'] == 'call':
                    ops.append(t['f'])
                    ops.extend(t['args'])
                for st in b['stmts']:
                    rv = st['rv']
                    ops.extend(ops_of(rv))
                    if rv['k'] == 'agg' and rv['kind'].startswith('closure:'):
                        edges[p].add(rv['kind'][8:])
                for o in ops:
                    if o['k'] == 'const' and o.get('def'):
                        for r in resolve(o['def'], o.get('res', False)):
                            edges[p].add(r)
        # closures are children of their defining function
        for p in F:
            i = p.find('::{closure#')
            if i > 0:
                parent = p[:i]
                if parent in F:
                    edges[parent].add(p)
        self._cg[crate] = edges
        return edges

    def reachable(self, entries, crate='simfony'):
        cg = self.callgraph(crate)
        seen = set()
        st = list(entries)
        while st:
            p = st.pop()
            if p in seen:
                continue
            seen.add(p)
            st.extend(cg.get(p, ()))
        return seen

    def callers_of(self, pred, crate='simfony'):
        """[(caller Fn, block id, callee, term)] for all call sites matching pred."""
        out = []
        for p, fn in self.crates[crate].items():
            for bid, c, t in fn.call_sites(pred):
                out.append((fn, bid, c, t))
        return out


class MissingAnchor(Exception):
    pass


# ------------------------------------------------------------------------------------------
# Symbolic values
# ------------------------------------------------------------------------------------------
TRANSPARENT_CALLS = (
    'as std::ops::Deref>::deref', 'as std::ops::DerefMut>::deref_mut', 'as std::convert::AsRef',
    'as std::borrow::Borrow', 'as std::clone::Clone>::clone', 'as std::convert::Into', 'as std::convert::From<T>>::from',
)


def is_transparent(callee):
    return (callee.endswith(('::deref', '::deref_mut', '::as_ref', '::borrow', '::clone', '::shallow_clone', '::as_slice', '::as_mut_slice'))
            or callee in ('<T as std::convert::Into<U>>::into', '<T as std::convert::From<T>>::from', 'std::sync::Arc::<T>::new', 'std::boxed::Box::<T>::new'))


def norm_inst(inst):
    """Instantiated callee path with position-free closure names."""
    return re.sub(r'\{closure@[^}]*\}', '{closure}', inst or '')


def try_known(v):
    """0 (Continue) / 1 (Break) when the operand of `?` is a literal Ok/Some or Err/None (possibly wrapped by with_span/map_err), else None."""
    for _ in range(6):
        if not isinstance(v, tuple) or not v:
            return None
        if v[0] == 'residual':
            return 1     # the value an inlined helper returned through its own failing `?`
        if v[0] == 'agg':
            if v[1].endswith(('Result::Ok', 'Option::Some')):
                return 0
            if v[1].endswith(('Result::Err', 'Option::None')):
                return 1
            return None
        if v[0] == 'call' and v[1].split('::')[-1] in ('with_span', 'map_err', 'with_file') and v[2]:
            v = v[2][0]
            continue
        if v[0] == 'call' and v[1].split('::')[-1] == 'map' and ('Result' in v[1] or 'Option' in v[1]) and v[2]:
            v = v[2][0]      # x.map(f) is Ok/Some exactly when x is
            continue
        if v[0] == 'call' and v[1].split('::')[-1] == 'transpose' and v[2] and isinstance(v[2][0], tuple) and v[2][0][0] == 'agg' and v[2][0][1].endswith('Option::None'):
            return 0         # None.transpose() = Ok(None)
        return None
    return None


class Path:
    __slots__ = ('env', 'bb', 'conds', 'events', 'visits', 'trace', 'havocked')

    def __init__(self, env, bb, conds, events, visits, trace):
        self.env, self.bb, self.conds, self.events, self.visits, self.trace = env, bb, conds, events, visits, trace
        self.havocked = set()

    def fork(self, bb, cond=None):
        np = Path(dict(self.env), bb, self.conds + ([cond] if cond else []), list(self.events), dict(self.visits), list(self.trace))
        np.havocked = set(self.havocked)
        return np


class Explorer:
    """Path-forking symbolic walk of one MIR body.

    Values are tuples: ('param', i, name) ('const', text, ty) ('fn', def) ('call', callee, args, site)
    ('field', base, name) ('down', base, variant) ('agg', kind, ops) ('bin', op, a, b) ('un', op, a)
    ('discr', v, adt, vars) ('try', v) ('undef', local).
    Switches on enum discriminants / booleans fork; `?` follows the Continue arm only unless
    follow_break is set; loops are cut after `max_visits` visits of a block per path."""

    def __init__(self, fn, follow_break=False, max_visits=1, max_paths=4000, transparent=is_transparent, on_call=None, keep_site=False, facts=None, havoc=False, inline_new=True):
        self.fn = fn
        self.fx = facts
        self.havoc = havoc
        self._loops = None
        self.follow_break = follow_break
        self.max_visits = max_visits
        self.max_paths = max_paths
        self.transparent = transparent
        self.on_call = on_call
        self.keep_site = keep_site
        self.inline_new = inline_new

    # -- helpers introduced after the review (extract-method refactors) are inlined
    depth = 0

    def _new_helper(self, f):
        fx = self.fx
        if fx is None or not self.inline_new or self.depth >= 3 or f.get('k') != 'const' or not f.get('def'):
            return None
        known = getattr(fx, 'reviewed_fns', None)
        if not known:
            return None
        pf = fx.crates[self.fn.crate].get(f['def'])
        if pf is None or pf.macro or '{closure' in pf.path or '::promoted[' in pf.path or pf.kind not in ('Fn', 'AssocFn'):
            return None
        if pf.path in known.get(self.fn.crate, ()) or pf.path == self.fn.path:
            return None
        return pf

    def _inline(self, p, t, pf, a, work, results):
        sub = Explorer(pf, follow_break=self.follow_break, max_visits=self.max_visits, max_paths=64, transparent=self.transparent,
                       on_call=self.on_call, keep_site=self.keep_site, facts=self.fx, havoc=self.havoc)
        sub.depth = self.depth + 1
        res = sub.run(args=list(a))
        if not res or len(res) > 16 or any(kind not in ('RET', 'DIVERGE') for kind, _, _ in res):
            return False
        d = t['dest']
        for kind, sp, sret in res:
            q = p.fork(t['target'])
            q.conds = p.conds + sp.conds
            q.events = p.events + sp.events
            q.havocked |= sp.havocked
            if kind == 'DIVERGE' or t['target'] < 0:
                results.append(('DIVERGE', q, sret if kind == 'DIVERGE' else pf.path))
                continue
            if not d['p']:
                q.env[d['l']] = sret
            else:
                q.env[(d['l'], tuple(d['p']))] = sret
            work.append(q)
        return True

    # -- value helpers
    def place_val(self, env, pl):
        key = (pl['l'], tuple(pl['p']))
        if pl['p'] and key in env:
            return env[key]
        v = env.get(pl['l'], ('undef', pl['l']))
        if not pl['p']:
            # by-value field assignments to this local (`self.file = Some(file); self`): functional update
            ups = sorted((k[1], val) for k, val in env.items() if isinstance(k, tuple) and k[0] == pl['l'] and k[1] and k[1][0].startswith('.'))
            if ups:
                v = ('upd', v, tuple(('/'.join(q.split(':', 1)[1] if ':' in q else q for q in proj), val) for proj, val in ups))
        for p in pl['p']:
            if p == '*':
                continue
            if p.startswith('as '):
                v = ('down', v, p[3:])
                continue
            if p.startswith('.'):
                name = p.split(':', 1)[1] if ':' in p else p[1:]
                # projections through known wrappers
                if v[0] == 'down' and v[1][0] == 'try' and v[2] == 'Continue':
                    v = v[1][1]
                    continue
                if v[0] == 'down' and v[1][0] == 'agg' and v[1][1].endswith('::' + v[2]):
                    idx = int(p[1:].split(':')[0])
                    if idx < len(v[1][2]):
                        v = v[1][2][idx]
                        continue
                if v[0] == 'agg' and (v[1] in ('tuple', 'array') or v[1].startswith(('adt:', 'closure:'))):
                    try:
                        idx = int(p[1:].split(':')[0])
                    except ValueError:
                        idx = None
                    if idx is not None and idx < len(v[2]):
                        v = v[2][idx]
                        continue
                v = ('field', v, name)
                continue
            if p.startswith('[_'):
                try:
                    v = ('index', v, env.get(int(p[2:-1]), ('undef', int(p[2:-1]))))
                    continue
                except ValueError:
                    pass
            if p.startswith('[c') and not p.startswith('[c-') and v[0] == 'agg' and v[1] in ('array', 'tuple'):
                try:
                    ci = int(p[2:-1])
                    if ci < len(v[2]):
                        v = v[2][ci]
                        continue
                except ValueError:
                    pass
            v = ('idx', v, p)
        return v

    def operand(self, env, o):
        k = o['k']
        if k in ('copy', 'move'):
            return self.place_val(env, o['pl'])
        if k == 'const':
            if o.get('def'):
                d = short(o['def'])
                if d == '<T as std::convert::Into<U>>::into':
                    d = 'std::convert::From::from'   # `map_err(Into::into)` = `map_err(From::from)` (blanket impl)
                return ('fn', d, o.get('inst', ''))
            val = o['v'][6:] if o['v'].startswith('const ') else o['v']
            if self.fx is not None and ('::' in val):
                pf = self.fx.crates[self.fn.crate].get(val)
                if pf is not None and ('::promoted[' in val or pf.kind in ('Const', 'AssocConst')) and pf.path != self.fn.path:
                    r = [x for x in Explorer(pf, facts=self.fx).run() if x[0] == 'RET']
                    if len(r) == 1:
                        return r[0][2]
            return ('const', val, o.get('ty', ''))
        return ('?', o.get('v', ''))

    def rvalue(self, env, rv):
        k = rv['k']
        if k == 'use':
            return self.operand(env, rv['o'])
        if k in ('ref', 'rawptr'):
            return self.place_val(env, rv['pl'])
        if k == 'discr':
            return ('discr', self.place_val(env, rv['pl']), rv['adt'], tuple((str(a), n) for a, n in rv['vars']))
        if k == 'agg':
            return ('agg', rv['kind'], tuple(self.operand(env, o) for o in rv['ops']))
        if k == 'cast':
            return self.operand(env, rv['o'])
        if k == 'bin':
            return ('bin', rv['op'], self.operand(env, rv['a']), self.operand(env, rv['b']))
        if k == 'un':
            return ('un', rv['op'], self.operand(env, rv['a']))
        if k == 'repeat':
            return ('repeat', self.operand(env, rv['o']), rv['n'])
        return ('rv', k, rv.get('v', ''))

    def loop_info(self):
        """{header block: set of locals assigned inside its cycle} from the strongly connected components of the CFG."""
        if self._loops is not None:
            return self._loops
        fn = self.fn
        succ = fn.succ()
        idx, low, st, on, comps = {}, {}, [], set(), []
        counter = [0]
        import sys
        sys.setrecursionlimit(max(10000, sys.getrecursionlimit()))

        def strong(v):
            idx[v] = low[v] = counter[0]
            counter[0] += 1
            st.append(v)
            on.add(v)
            for w in succ.get(v, ()):
                if w not in idx:
                    strong(w)
                    low[v] = min(low[v], low[w])
                elif w in on:
                    low[v] = min(low[v], idx[w])
            if low[v] == idx[v]:
                comp = []
                while True:
                    w = st.pop()
                    on.discard(w)
                    comp.append(w)
                    if w == v:
                        break
                if len(comp) > 1 or v in succ.get(v, ()):
                    comps.append(set(comp))
        for b in sorted(fn.reachable_blocks()):
            if b not in idx:
                strong(b)
        preds = fn.preds()
        info = {}
        for comp in comps:
            assigned = set()
            for b in comp:
                blk = fn.blocks[b]
                for stt in blk['stmts']:
                    if not stt['lhs']['p']:
                        assigned.add(stt['lhs']['l'])
                t = blk['term']
                if t['k'] == 'call' and not t['dest']['p']:
                    assigned.add(t['dest']['l'])
            for b in comp:
                if b == 0 or any(pb not in comp for pb in preds.get(b, ())):
                    info[b] = assigned
        self._loops = info
        return info

    def run(self, args=None):
        fn = self.fn
        if args is None:
            args = [('param', i, fn.names.get(i + 1, 'arg%d' % i)) for i in range(fn.argc)]
        blocks = fn.blocks
        work = [Path({i + 1: a for i, a in enumerate(args)}, 0, [], [], {}, [])]
        results = []
        while work:
            p = work.pop()
            while True:
                n = p.visits.get(p.bb, 0)
                if n >= self.max_visits:
                    results.append(('LOOP', p, p.bb))
                    break
                p.visits[p.bb] = n + 1
                p.trace.append(p.bb)
                b = blocks[p.bb]
                env = p.env
                if self.havoc and n == 0:
                    li = self.loop_info().get(p.bb)
                    if li:
                        for loc in li:
                            if loc in env and loc in fn.names:
                                env[loc] = ('havoc', fn.names[loc])
                                p.havocked.add(fn.names[loc])
                for st in b['stmts']:
                    val = self.rvalue(env, st['rv'])
                    lhs = st['lhs']
                    if not lhs['p']:
                        for stale in [k for k in env if isinstance(k, tuple) and k[0] == lhs['l'] and k[1] and k[1][0].startswith('.')]:
                            del env[stale]
                        env[lhs['l']] = val
                    else:
                        env[(lhs['l'], tuple(lhs['p']))] = val
                t = b['term']
                k = t['k']
                if k == 'call':
                    f = t['f']
                    callee = short(f['def']) if f['k'] == 'const' and f.get('def') else '?'
                    a = tuple(self.operand(env, x) for x in t['args'])
                    if callee.endswith('as std::ops::Try>::branch'):
                        val = ('try', a[0], 'O' if callee.startswith('<std::option::Option') else 'R')
                        p.events.append(('try', a[0], t.get('line', 0), p.bb))
                    elif callee.endswith('::from_residual'):
                        val = ('residual', a[0])
                    elif self.transparent(callee) and a:
                        val = a[0]
                    elif self._new_helper(f) is not None and self._inline(p, t, self._new_helper(f), a, work, results):
                        break
                    else:
                        site = (p.bb, t.get('line', 0)) if (self.keep_site or callee == 'std::boxed::Box::new_uninit') else None
                        val = ('call', callee, a, norm_inst(f.get('inst', '')), site)
                        if callee == 'std::boxed::box_assume_init_into_vec_unsafe' and a:
                            # `vec![a, b, ..]` lowering: the array was stored through a pointer derived from the box
                            for key, stored in list(env.items()):
                                if isinstance(key, tuple) and isinstance(stored, tuple) and stored[0] == 'agg' and stored[1] == 'array':
                                    basev = env.get(key[0])
                                    if basev is not None and any(x == a[0] for x in walk(basev)):
                                        val = ('agg', 'vec', stored[2])
                                        break
                        # effectful = takes a `&mut` argument or returns unit; other calls only produce a value
                        eff = False
                        for x in t['args']:
                            if x.get('k') in ('move', 'copy'):
                                lt = fn.locals[x['pl']['l']] if x['pl']['l'] < len(fn.locals) else ''
                                if not x['pl']['p'] and lt.startswith('&mut'):
                                    eff = True
                        dl = t['dest']['l']
                        if not t['dest']['p'] and dl < len(fn.locals) and fn.locals[dl] in ('()', '!'):
                            eff = True
                        if eff and not self.keep_site and val[0] == 'call' and fn.locals[dl] not in ('()', '!'):
                            # a second `it.next()` / `stack.pop()` with the same receiver is a different value
                            occ = 1 + sum(1 for e0 in p.events if e0[0] == 'call' and e0[1] == callee and e0[2] == a)
                            if occ > 1:
                                val = val[:5] + (occ,)
                        p.events.append(('call', callee, a, t.get('line', 0), p.bb, len(p.conds), eff))
                        if self.on_call:
                            r = self.on_call(self, p, callee, a, t)
                            if r is not None:
                                val = r
                    d = t['dest']
                    if not d['p']:
                        for stale in [k for k in env if isinstance(k, tuple) and k[0] == d['l'] and k[1] and k[1][0].startswith('.')]:
                            del env[stale]
                        env[d['l']] = val
                    else:
                        env[(d['l'], tuple(d['p']))] = val
                    if t['target'] < 0:
                        results.append(('DIVERGE', p, callee))
                        break
                    p.bb = t['target']
                elif k == 'switch':
                    d = self.operand(env, t['d'])
                    tg = dict((int(v), bb) for v, bb in t['targets'])
                    if d[0] == 'discr' and d[1][0] == 'try':
                        known = try_known(d[1][1])
                        if known is not None:
                            p.bb = tg.get(known, t['otherwise'])
                            continue
                        if not self.follow_break:
                            p.bb = tg[0]
                            continue
                    if d[0] == 'const':
                        val = 1 if d[1] == 'true' else (0 if d[1] == 'false' else None)
                        if val is None:
                            try:
                                val = int(re.match(r'-?\d+', d[1]).group(0))
                            except Exception:
                                val = None
                        if val is not None:
                            p.bb = tg.get(val, t['otherwise'])
                            continue
                    # known aggregate variant: no fork
                    if d[0] == 'discr' and d[1][0] == 'agg' and d[1][1].startswith('adt:'):
                        vname = d[1][1].split('::')[-1]
                        hit = [int(a) for a, n in d[3] if n == vname]
                        if hit:
                            p.bb = tg.get(hit[0], t['otherwise'])
                            continue
                    opts = [(v, bb) for v, bb in tg.items()] + [('other', t['otherwise'])]
                    forks = []
                    for v, tb in opts:
                        tbk = blocks[tb]
                        if tbk['term']['k'] == 'unreachable' and not tbk['stmts']:
                            continue
                        if d[0] == 'discr':
                            names = dict(d[3])
                            if v == 'other':
                                rest = [n for a, n in d[3] if int(a) not in tg]
                                label = '|'.join(rest) if rest else 'other'
                                if len(rest) > 8 and len(rest) > len(tg):
                                    # large enums (grammar rules, jets): name the complement by what it excludes, so that a
                                    # new variant elsewhere does not change the label
                                    label = '!' + '|'.join(names.get(str(v2), str(v2)) for v2 in tg)
                            else:
                                label = names.get(str(v), str(v))
                            what = d[1]
                        else:
                            label = str(v)
                            if v == 'other':
                                label = '!' + '|'.join(str(x) for x in tg) if tg else 'other'
                            what = d
                        forks.append((tb, (what, label)))
                    for tb, cond in forks[1:]:
                        work.append(p.fork(tb, cond))
                    if not forks:
                        break
                    p.conds = p.conds + [forks[0][1]]
                    p.bb = forks[0][0]
                elif k in ('goto', 'drop', 'assert'):
                    if k == 'assert':
                        p.events.append(('assert', t.get('msg', ''), self.operand(env, t['cond']), t.get('line', 0), p.bb, len(p.conds)))
                    p.bb = t['target']
                elif k == 'return':
                    results.append(('RET', p, env.get(0)))
                    break
                elif k == 'unreachable':
                    results.append(('UNREACHABLE', p, None))
                    break
                else:
                    results.append(('OTHER', p, t))
                    break
            if len(results) > self.max_paths:
                results.append(('TOOMANY', None, None))
                break
        return results


def sv(v, depth=0):
    """Readable rendering of a symbolic value."""
    if not isinstance(v, tuple):
        return str(v)
    if depth > 14:
        return '…'
    k = v[0]
    if k == 'param':
        return str(v[2])
    if k == 'const':
        return v[1]
    if k == 'fn':
        return v[1].split('::')[-1] if '{closure' not in v[1] else v[1]
    if k == 'try':
        return sv(v[1], depth)
    if k == 'residual':
        return 'residual(' + sv(v[1], depth + 1) + ')'
    if k == 'call':
        n = v[1].split('::')[-1]
        return n + ('#%d' % v[5] if len(v) > 5 and v[5] else '') + '(' + ', '.join(sv(a, depth + 1) for a in v[2]) + ')'
    if k == 'field':
        return sv(v[1], depth) + '.' + v[2]
    if k == 'lam':
        return 'λ' + str(v[1]) + '.' + sv(v[2], depth + 1)
    if k == 'upd':
        return sv(v[1], depth) + '{' + ', '.join('%s: %s' % (f, sv(x, depth + 1)) for f, x in v[2]) + '}'
    if k == 'idx':
        return sv(v[1], depth) + v[2]
    if k == 'index':
        return '%s[%s]' % (sv(v[1], depth), sv(v[2], depth + 1))
    if k == 'down':
        return sv(v[1], depth) + '@' + v[2]
    if k == 'discr':
        return 'discr(' + sv(v[1], depth) + ')'
    if k == 'agg':
        return v[1].split('::')[-1] + '{' + ', '.join(sv(a, depth + 1) for a in v[2]) + '}'
    if k == 'bin':
        return '%s(%s, %s)' % (v[1], sv(v[2], depth + 1), sv(v[3], depth + 1))
    if k == 'un':
        return '%s(%s)' % (v[1], sv(v[2], depth + 1))
    if k == 'undef':
        return '_%s' % v[1]
    if k == 'havoc':
        return '?' + str(v[1])
    return str(v)[:80]


def walk(v):
    """Yield all sub-values of a symbolic value."""
    if isinstance(v, tuple):
        if v and isinstance(v[0], str):
            yield v
        for x in v:
            if isinstance(x, tuple):
                for y in walk(x):
                    yield y
