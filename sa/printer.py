"""Printer analyses: literal pieces written by Display impls (decoded from the compiled format templates) and their
relation to grammar literals."""
import re

from .core import Explorer, sv, walk
from .util import event_calls, is_call
from .grammar import Grammar


def decode_template(text):
    """Literal pieces of a compiled `format_args!` template printed by rustc as b"...".
    Encoding (nightly fmt::rt): a byte < 0x80 is the length of the literal that follows; bytes >= 0x80 start an argument
    placeholder (followed by option bytes); 0x00 terminates."""
    m = re.match(r'^b"(.*)"$', text, re.S)
    if not m:
        return None
    raw = m.group(1)
    # unescape
    out = bytearray()
    i = 0
    while i < len(raw):
        c = raw[i]
        if c == '\\':
            n = raw[i + 1]
            if n == 'x':
                out.append(int(raw[i + 2:i + 4], 16))
                i += 4
            elif n == 'n':
                out.append(10)
                i += 2
            elif n == 't':
                out.append(9)
                i += 2
            elif n == 'r':
                out.append(13)
                i += 2
            elif n == '0':
                out.append(0)
                i += 2
            elif n in '"\\\'':
                out.append(ord(n))
                i += 2
            else:
                out.append(ord(n))
                i += 2
        else:
            out.extend(c.encode())
            i += 1
    pieces = []
    i = 0
    b = bytes(out)
    while i < len(b):
        x = b[i]
        if x == 0:
            break
        if x < 0x80:
            pieces.append(b[i + 1:i + 1 + x].decode('utf8', 'replace'))
            i += 1 + x
        elif x == 0xC0:
            pieces.append(None)       # plain `{}`: next implicit argument
            i += 1
        else:
            pieces.append(None)       # placeholder with options: layout not decoded, stop here
            pieces.append('<undecoded>')
            break
    return pieces


def unquote(text):
    m = re.match(r'^"(.*)"$', text, re.S)
    if not m:
        return None
    s = m.group(1)
    return s.replace('\\n', '\n').replace('\\t', '\t').replace('\\"', '"').replace('\\\\', '\\').replace("\\'", "'").replace('{{', '{').replace('}}', '}') if False else s.replace('\\n', '\n').replace('\\t', '\t').replace('\\"', '"').replace('\\\\', '\\').replace("\\'", "'")


def path_pieces(p):
    """Ordered literal pieces (None = a `{}` argument) written on one explored path."""
    out = []
    for e in event_calls(p):
        c = e[1]
        if c.endswith('Formatter::write_str') and len(e[2]) > 1 and e[2][1][0] == 'const':
            s = unquote(e[2][1][1])
            if s is not None:
                out.append(s)
        elif (c.endswith('fmt::Arguments::from_str') or c.endswith('fmt::Arguments::from_str_nonconst')) and e[2] and e[2][0][0] == 'const':
            s = unquote(e[2][0][1])
            if s is not None:
                out.append(s)
        elif c.endswith('fmt::Arguments::new') and e[2] and e[2][0][0] == 'const':
            d = decode_template(e[2][0][1])
            if d is not None:
                out.extend(d)
    return out


def segmentable(piece, literals):
    """Can `piece` (whitespace removed) be written as a concatenation of grammar literals?"""
    s = re.sub(r'\s+', '', piece)
    if not s:
        return True
    ok = [False] * (len(s) + 1)
    ok[0] = True
    for i in range(len(s)):
        if not ok[i]:
            continue
        for lit in literals:
            if lit and s.startswith(lit, i):
                ok[i + len(lit)] = True
    return ok[len(s)]


def all_literals(grammar_rules):
    g = Grammar(grammar_rules)
    out = set()
    for n in g.order:
        out |= g.literals(n)
    return out
