"""Printer analyses: literal pieces written by Display impls (decoded from the compiled format templates) and their
relation to grammar literals."""
import re

from .core import Explorer, sv, walk
from .util import event_calls, is_call
from .grammar import Grammar


def decode_template(text):
    """Literal pieces of a compiled `format_args!` template printed by rustc as b"...".
    Encoding (nightly fmt::rt): a byte < 0x80 is the length of the literal that follows; bytes >= 0x80 start an argument
    placeholder (followed by option bytes); 0x00 terminates."""
    m = re.match(r'^b"(.*)"$', text, re.S)
    if not m:
        return None
    raw = m.group(1)
    # unescape
    out = bytearray()
    i = 0
    while i < len(raw):
        c = raw[i]
        if c == '\\':
            n = raw[i + 1]
            if n == 'x':
                out.append(int(raw[i + 2:i + 4], 16))
                i += 4
            elif n == 'n':
                out.append(10)
                i += 2
            elif n == 't':
                out.append(9)
                i += 2
            elif n == 'r':
                out.append(13)
                i += 2
            elif n == '0':
                out.append(0)
                i += 2
            elif n in '"\\\'':
                out.append(ord(n))
                i += 2
            else:
                out.append(ord(n))
                i += 2
        else:
            out.extend(c.encode())
            i += 1
    pieces = []
    i = 0
    b = bytes(out)
    while i < len(b):
        x = b[i]
        if x == 0:
            break
        if x < 0x80:
            pieces.append(b[i + 1:i + 1 + x].decode('utf8', 'replace'))
            i += 1 + x
        elif x == 0xC0:
            pieces.append(None)       # plain `{}`: next implicit argument
            i += 1
        else:
            pieces.append(None)       # placeholder with options: layout not decoded, stop here
            pieces.append('<undecoded>')
            break
    return pieces


def unquote(text):
    m = re.match(r'^"(.*)"$', text, re.S)
    if not m:
        return None
    s = m.group(1)
    return s.replace('\\n', '\n').replace('\\t', '\t').replace('\\"', '"').replace('\\\\', '\\').replace("\\'", "'").replace('{{', '{').replace('}}', '}') if False else s.replace('\\n', '\n').replace('\\t', '\t').replace('\\"', '"').replace('\\\\', '\\').replace("\\'", "'")


def fmt_pieces(a):
    """Pieces written by a `fmt::Arguments` value: str literals and ('arg', value) for displayed values.  A displayed
    string constant is a literal, a displayed nested `format_args!` is inlined (`write!(f, "{close}")` with close = ")"
    writes the literal `)`), adjacent literals are joined.  None when the value is not a decodable Arguments."""
    while isinstance(a, tuple) and a and a[0] == 'call' and a[1].split('::')[-1] in ('deref', 'borrow') and a[2]:
        a = a[2][0]
    if not (isinstance(a, tuple) and a and a[0] == 'call'):
        return None
    c = a[1]
    out = []
    if c.endswith('fmt::Arguments::from_str') or c.endswith('fmt::Arguments::from_str_nonconst') or c.endswith('Arguments.from_str'):
        if a[2] and a[2][0][0] == 'const':
            sv_ = unquote(a[2][0][1])
            if sv_ is not None:
                return [sv_]
        return [('arg', a[2][0])] if a[2] else None
    if not (c.endswith('fmt::Arguments::new') or c.endswith('Arguments.new')) or not a[2] or a[2][0][0] != 'const':
        return None
    d = decode_template(a[2][0][1])
    if d is None:
        return None
    args = []
    if len(a[2]) > 1 and isinstance(a[2][1], tuple) and a[2][1][0] == 'agg':
        args = list(a[2][1][2])
    k = 0
    for piece in d:
        if piece is not None:
            out.append(piece)
            continue
        v = args[k] if k < len(args) else None
        k += 1
        inner = v[2][0] if (isinstance(v, tuple) and v and v[0] == 'call' and v[1].split('::')[-1].split('.')[-1] in ('new_display', 'new_debug') and v[2]) else None
        if inner is None:
            out.append(('arg', v))
            continue
        while isinstance(inner, tuple) and inner and inner[0] == 'call' and inner[1].split('::')[-1] in ('deref', 'borrow') and inner[2]:
            inner = inner[2][0]
        if isinstance(inner, tuple) and inner[0] == 'const' and unquote(inner[1]) is not None and v[1].split('::')[-1].split('.')[-1] == 'new_display':
            out.append(unquote(inner[1]))
            continue
        nested = fmt_pieces(inner)
        if nested is not None and v[1].split('::')[-1].split('.')[-1] == 'new_display':
            out.extend(nested)
            continue
        out.append(('arg', inner))
    merged = []
    for x in out:
        if isinstance(x, str) and merged and isinstance(merged[-1], str):
            merged[-1] += x
        else:
            merged.append(x)
    return merged


def path_pieces(p):
    """Ordered literal pieces (None = a `{}` argument) written on one explored path."""
    out = []
    for e in event_calls(p):
        c = e[1]
        if c.endswith('Formatter::write_str') and len(e[2]) > 1 and e[2][1][0] == 'const':
            s = unquote(e[2][1][1])
            if s is not None:
                out.append(s)
        elif c.endswith('Formatter::write_fmt') and len(e[2]) > 1:
            d = fmt_pieces(e[2][1])
            if d is not None:
                out.extend(x if isinstance(x, str) else None for x in d)
    return out


def segmentable(piece, literals):
    """Can `piece` (whitespace removed) be written as a concatenation of grammar literals?"""
    s = re.sub(r'\s+', '', piece)
    if not s:
        return True
    ok = [False] * (len(s) + 1)
    ok[0] = True
    for i in range(len(s)):
        if not ok[i]:
            continue
        for lit in literals:
            if lit and s.startswith(lit, i):
                ok[i + len(lit)] = True
    return ok[len(s)]


def all_literals(grammar_rules):
    g = Grammar(grammar_rules)
    out = set()
    for n in g.order:
        out |= g.literals(n)
    return out
