"""Fact extraction: runs the simfacts rustc driver over /repo's current working tree
(cargo +nightly check, RUSTC_WORKSPACE_WRAPPER) and the pest grammar dumper.

Facts are cached under /verif/build/facts/<sha256 of inputs>/<config>/ so that the checks of
one tree pay for extraction once.  The hash covers every file the build reads from /repo
(src/**, codegen/**, Cargo.toml, Cargo.lock) plus the driver source, so an edited tree always
gets a fresh extraction."""
import fcntl
import glob
import hashlib
import json
import os
import shutil
import subprocess
import sys
import time

VERIF = os.path.dirname(os.path.dirname(os.path.abspath(__file__)))
REPO = os.environ.get('VERIF_REPO', '/repo')
BUILD = os.path.join(VERIF, 'build')
DRIVER = os.path.join(VERIF, 'engines', 'simfacts', 'target', 'release', 'simfacts')
PESTDUMP = os.path.join(VERIF, 'engines', 'pestdump', 'target', 'release', 'pestdump')
CONFIGS = {'default': [], 'serde': ['--features', 'serde']}


def _input_files():
    files = []
    for root in ('src', 'codegen'):
        for d, dirs, fs in os.walk(os.path.join(REPO, root)):
            dirs[:] = [x for x in dirs if x != 'target']
            for f in fs:
                files.append(os.path.join(d, f))
    for f in ('Cargo.toml', 'Cargo.lock'):
        files.append(os.path.join(REPO, f))
    files.append(os.path.join(VERIF, 'engines', 'simfacts', 'src', 'main.rs'))
    files.append(os.path.join(VERIF, 'engines', 'pestdump', 'src', 'main.rs'))
    return sorted(files)


def tree_hash():
    h = hashlib.sha256()
    for f in _input_files():
        h.update(f.encode())
        h.update(b'\0')
        try:
            with open(f, 'rb') as fh:
                h.update(fh.read())
        except OSError:
            h.update(b'<missing>')
        h.update(b'\0')
    return h.hexdigest()[:24]


def _sysroot():
    return subprocess.check_output(['rustc', '+nightly', '--print', 'sysroot'], text=True).strip()


def _run_cargo(config, outdir):
    target = os.path.join(BUILD, 'target-' + config)
    os.makedirs(target, exist_ok=True)
    # cargo's freshness cache would skip the wrapper for unchanged members: drop their fingerprints
    for fp in glob.glob(os.path.join(target, 'debug', '.fingerprint', '*')):
        base = os.path.basename(fp)
        if base.startswith(('simfony-', 'codegen-', 'simc-')):
            shutil.rmtree(fp, ignore_errors=True)
    env = dict(os.environ)
    env.update({
        'CARGO_NET_OFFLINE': 'true',
        'LD_LIBRARY_PATH': _sysroot() + '/lib' + (':' + env['LD_LIBRARY_PATH'] if env.get('LD_LIBRARY_PATH') else ''),
        'RUSTFLAGS': '-Zmir-opt-level=0 -Awarnings',
        'RUSTC_WORKSPACE_WRAPPER': DRIVER,
        'CARGO_TARGET_DIR': target,
        'FACTS_DIR': outdir,
    })
    env.pop('RUSTC_WRAPPER', None)
    cmd = ['cargo', '+nightly', 'check', '--offline', '--workspace'] + CONFIGS[config]
    p = subprocess.run(cmd, cwd=REPO, env=env, stdout=subprocess.PIPE, stderr=subprocess.STDOUT, text=True)
    return p.returncode, p.stdout


def ensure(config='default', verbose=True):
    """Return the directory holding facts for the current tree and `config`; extract if needed.
    Raises RuntimeError (fail closed) when the tree does not build or facts are missing."""
    if not os.path.exists(DRIVER) or not os.path.exists(PESTDUMP):
        raise RuntimeError('engines not built: run ./setup.sh')
    os.makedirs(BUILD, exist_ok=True)
    lock = open(os.path.join(BUILD, '.lock'), 'w')
    fcntl.flock(lock, fcntl.LOCK_EX)
    try:
        h = tree_hash()
        out = os.path.join(BUILD, 'facts', h, config)
        done = os.path.join(out, 'DONE')
        if os.path.exists(done):
            os.utime(os.path.dirname(out), None)
            return out
        t0 = time.time()
        if os.path.isdir(out):
            shutil.rmtree(out)
        os.makedirs(out)
        rc, log = _run_cargo(config, out)
        with open(os.path.join(out, 'cargo.log'), 'w') as f:
            f.write(log)
        if rc != 0:
            raise RuntimeError('cargo check of /repo failed (config %s):\n%s' % (config, log[-3000:]))
        got = {}
        for f in glob.glob(os.path.join(out, 'facts-*.json')):
            crate = os.path.basename(f).split('-')[1]
            got.setdefault(crate, []).append(f)
        for crate in ('simfony', 'simc', 'codegen'):
            if crate not in got:
                raise RuntimeError('no facts produced for crate %s (config %s); cargo log:\n%s' % (crate, config, log[-2000:]))
        # grammar
        g = subprocess.run([PESTDUMP, os.path.join(REPO, 'src', 'minimal.pest')], stdout=subprocess.PIPE, stderr=subprocess.PIPE, text=True)
        if g.returncode != 0:
            raise RuntimeError('pestdump failed: ' + g.stderr[-2000:])
        json.loads(g.stdout)
        with open(os.path.join(out, 'grammar.json'), 'w') as f:
            f.write(g.stdout)
        with open(done, 'w') as f:
            f.write(json.dumps({'hash': h, 'config': config, 'wall_s': round(time.time() - t0, 2)}))
        # keep the cache small: drop fact sets of other trees older than the newest four
        roots = sorted(glob.glob(os.path.join(BUILD, 'facts', '*')), key=os.path.getmtime)
        for old in roots[:-8]:
            if os.path.basename(old) != h:
                shutil.rmtree(old, ignore_errors=True)
        if verbose:
            print('[facts] extracted %s/%s in %.1fs' % (h, config, time.time() - t0), file=sys.stderr)
        return out
    finally:
        fcntl.flock(lock, fcntl.LOCK_UN)
        lock.close()


if __name__ == '__main__':
    for c in (sys.argv[1:] or ['default']):
        print(ensure(c))
