"""RF-E: reconstruction of the Simplicity term a piece of builder code emits, and its symbolic
evaluation (abstract interpretation of the object term with a term domain).

Terms (tuples):  ('iden',) ('unit',) ('injl',t) ('injr',t) ('take',t) ('drop',t) ('comp',s,t)
('pair',s,t) ('case',s,t) ('assertl',s,cmr) ('assertr',cmr,t) ('fail',) ('jet',j) ('witness',n)
('scribe',v) ('hole',id)  -- a hole is an arbitrary sub-program (a compiled child or a parameter).
"""
import re

from .core import Explorer, short, sv, walk, is_transparent

PRIMS = {'iden': 0, 'unit': 0, 'injl': 1, 'injr': 1, 'take': 1, 'drop_': 1, 'comp': 2, 'pair': 2, 'case': 2}


class Opaque(Exception):
    pass


def is_term(x):
    return isinstance(x, tuple) and x and x[0] in ('iden', 'unit', 'injl', 'injr', 'take', 'drop', 'comp', 'pair', 'case', 'assertl', 'assertr', 'fail', 'jet', 'witness', 'scribe', 'hole', 'btree', 'partition')


def tstr(t):
    if not isinstance(t, tuple):
        return str(t)
    k = t[0]
    if k in ('iden', 'unit', 'fail'):
        return k
    if k == 'hole':
        return '⟨%s⟩' % t[1]
    if k in ('jet', 'witness', 'scribe'):
        return '%s[%s]' % (k, t[1] if isinstance(t[1], str) else sv(t[1]))
    if k == 'sel':
        return 'sel' + ''.join('I' if b else 'O' for b in t[1])
    return '%s(%s)' % (k, ', '.join(tstr(x) if isinstance(x, tuple) else str(x) for x in t[1:]))


class Reconstructor:
    """Turns explorer values into Simplicity terms, inlining the local builder helpers."""

    def __init__(self, facts, hole_of=None, max_depth=12, extra=None):
        self.fx = facts
        self.extra = extra or {}
        self.hole_of = hole_of or (lambda v: None)
        self.max_depth = max_depth
        self.inlined = set()
        self.stack = []

    def local_fn(self, callee):
        F = self.fx.F
        if callee in F:
            return F[callee]
        # generic impl methods are recorded with their generics: named::PairBuilder::<P>::comp
        cands = [p for p in F if short(p) == callee]
        if len(cands) == 1:
            return F[cands[0]]
        return None

    def term(self, v, depth=0):
        """Value -> term. Raises Opaque when the value is not a reconstructible term."""
        if depth > 150:
            raise Opaque('depth')
        h = self.hole_of(v)
        if h is not None:
            return ('hole', h)
        if not isinstance(v, tuple):
            raise Opaque(str(v))
        k = v[0]
        if is_term(v):
            return v
        if k in ('try',):
            return self.term(v[1], depth + 1)
        if k == 'param':
            return ('hole', v[2])
        if k == 'agg' and (v[1] in ('adt:named::PairBuilder::PairBuilder',) or v[1].endswith(('Result::Ok', 'Option::Some'))) and len(v[2]) == 1:
            return self.term(v[2][0], depth + 1)
        if k == 'field' and v[2] == '0':
            return self.term(v[1], depth + 1)
        if k == 'down' and v[2] in ('Ok', 'Some', 'Continue'):
            return self.term(v[1], depth + 1)
        if k == 'call':
            return self.call(v, depth)
        raise Opaque(sv(v))

    def selector(self, v, depth=0):
        """Value of type SelectorBuilder -> tuple of bits in push order."""
        if isinstance(v, tuple) and v[0] == 'call':
            c = v[1]
            if c in ('named::CoreExt::o', 'named::CoreExt::i'):
                # CoreExt::o() = SelectorBuilder::default().o(): read from the body
                fn = self.local_fn(c)
                res = [r for r in Explorer(fn).run() if r[0] == 'RET']
                if len(res) != 1:
                    raise Opaque(c)
                self.inlined.add(fn.path)
                return self.selector(res[0][2], depth + 1)
            if c in ('named::SelectorBuilder::o', 'named::SelectorBuilder::i'):
                return self.selector(v[2][0], depth + 1) + (c.endswith('::i'),)
            if c.endswith('SelectorBuilder<P> as std::default::Default>::default'):
                return ()
        raise Opaque('selector ' + sv(v))

    def call(self, v, depth):
        c, a = v[1], v[2]
        last = c.split('::')[-1]
        if c in self.extra:
            return self.extra[c](self, v, depth)
        # primitive combinators of simplicity-lang
        if 'CoreConstructible' in c or 'JetConstructible' in c or 'WitnessConstructible' in c:
            if last in ('iden', 'unit'):
                return (last,)
            if last in ('injl', 'injr', 'take'):
                return (last, self.term(a[0], depth + 1))
            if last == 'drop_':
                return ('drop', self.term(a[0], depth + 1))
            if last in ('comp', 'pair', 'case'):
                return (last, self.term(a[0], depth + 1), self.term(a[1], depth + 1))
            if last == 'assertl':
                return ('assertl', self.term(a[0], depth + 1), sv(a[1]))
            if last == 'assertr':
                return ('assertr', sv(a[0]), self.term(a[1], depth + 1))
            if last == 'fail':
                return ('fail',)
            if last == 'bit_false':     # simplicity-lang provided method: injl unit
                return ('injl', ('unit',))
            if last == 'bit_true':      # simplicity-lang provided method: injr unit
                return ('injr', ('unit',))
            if last == 'scribe':
                return ('scribe', a[1])
            if last == 'jet':
                return ('jet', sv(a[1]))
            if last == 'witness':
                return ('witness', sv(a[1]))
            raise Opaque('primitive ' + c)
        if c == 'named::SelectorBuilder::h':
            bits = self.selector(a[0], depth + 1)
            t = ('iden',)
            for b in reversed(bits):
                t = ('drop', t) if b else ('take', t)
            return t
        if last in ('unwrap', 'expect', 'with_span', 'build') and a:
            return self.term(a[0], depth + 1)
        if c in ('std::result::Result::map', 'std::option::Option::map') and a[1][0] == 'fn':
            f = a[1][1]
            if f in ('named::PairBuilder', 'named::PairBuilder::build'):
                return self.term(a[0], depth + 1)
            inner = ('call', f, (a[0],), '', None)
            return self.call(inner, depth + 1)
        # local builder helpers: inline from their own MIR
        if c.startswith('named::'):
            fn = self.local_fn(c)
            if fn is None:
                raise Opaque('unknown helper ' + c)
            if fn.path in self.stack:
                raise Opaque('recursive helper ' + c)
            args = []
            for x in a:
                try:
                    args.append(self.term(x, depth + 1))
                except Opaque:
                    args.append(x)
            res = [r for r in Explorer(fn).run(args=args) if r[0] == 'RET']
            if len(res) != 1:
                raise Opaque('helper %s has %d paths for these arguments' % (c, len(res)))
            self.inlined.add(fn.path)
            self.stack.append(fn.path)
            try:
                return self.term(res[0][2], depth + 1)
            finally:
                self.stack.pop()
        raise Opaque('call ' + c)


# ------------------------------------------------------------------------------------------
# Symbolic evaluation
# ------------------------------------------------------------------------------------------
BOT = ('⊥',)
U = ('U',)


def P(a, b):
    return ('P', a, b)


def L(a):
    return ('L', a)


def R(a):
    return ('R', a)


def V(n):
    return ('V', n)


def fst(x):
    return x[1] if x[0] == 'P' else ('fst', x)


def snd(x):
    return x[2] if x[0] == 'P' else ('snd', x)


def vstr(x):
    k = x[0]
    if k == 'V':
        return x[1]
    if k == 'U':
        return '()'
    if k == 'P':
        return '(%s, %s)' % (vstr(x[1]), vstr(x[2]))
    if k in ('L', 'R'):
        return '%s %s' % (k, vstr(x[1]))
    if k in ('fst', 'snd', 'unl', 'unr'):
        return '%s(%s)' % (k, vstr(x[1]))
    if k == 'app':
        return '%s%s' % (x[1], vstr(x[2]) if x[2][0] == 'P' else '(' + vstr(x[2]) + ')')
    if k == 'const':
        return 'const[%s]' % (x[1] if isinstance(x[1], str) else sv(x[1]))
    if k == 'wit':
        return 'witness[%s]' % x[1]
    if k == '⊥':
        return '⊥'
    return str(x)


class Outcome:
    __slots__ = ('conds', 'value', 'forced')

    def __init__(self, conds, value, forced):
        self.conds, self.value, self.forced = conds, value, forced

    def key(self):
        return (tuple(sorted((vstr(s), l) for s, l in self.conds)), vstr(self.value), tuple(sorted(vstr(f) for f in self.forced)))

    def __repr__(self):
        c = ' & '.join('%s is %s' % (vstr(s), l) for s, l in self.conds)
        return '[%s] ↦ %s   forces{%s}' % (c, vstr(self.value), ', '.join(sorted(vstr(f) for f in self.forced)))


def evaluate(t, x, conds=()):
    """Apply term t to symbolic value x. Returns a list of Outcomes (one per feasible combination of
    case decisions on symbolic scrutinees). `forced` collects every application of a possibly failing
    sub-program (hole, jet, witness-dependent assertion) that is evaluated on that branch."""
    k = t[0]
    if k == 'iden':
        return [Outcome(conds, x, frozenset())]
    if k == 'unit':
        return [Outcome(conds, U, frozenset())]
    if k in ('injl', 'injr'):
        return [Outcome(o.conds, o.value if o.value == BOT else (L(o.value) if k == 'injl' else R(o.value)), o.forced) for o in evaluate(t[1], x, conds)]
    if k == 'take':
        return evaluate(t[1], fst(x), conds)
    if k == 'drop':
        return evaluate(t[1], snd(x), conds)
    if k == 'comp':
        out = []
        for o in evaluate(t[1], x, conds):
            if o.value == BOT:
                out.append(o)
                continue
            for o2 in evaluate(t[2], o.value, o.conds):
                out.append(Outcome(o2.conds, o2.value, o.forced | o2.forced))
        return out
    if k == 'pair':
        out = []
        for o in evaluate(t[1], x, conds):
            for o2 in evaluate(t[2], x, o.conds):
                val = BOT if BOT in (o.value, o2.value) else P(o.value, o2.value)
                out.append(Outcome(o2.conds, val, o.forced | o2.forced))
        return out
    if k in ('case', 'assertl', 'assertr'):
        c, env = fst(x), snd(x)
        left = t[1] if k in ('case', 'assertl') else None
        right = t[2] if k in ('case', 'assertr') else None

        def branch(lab, payload, cnds):
            sub = left if lab == 'L' else right
            if sub is None:
                return [Outcome(cnds, BOT, frozenset())]
            return evaluate(sub, P(payload, env), cnds)
        if c[0] == 'L':
            return branch('L', c[1], conds)
        if c[0] == 'R':
            return branch('R', c[1], conds)
        known = dict((vstr(s), l) for s, l in conds)
        if vstr(c) in known:
            lab = known[vstr(c)]
            return branch(lab, ('unl', c) if lab == 'L' else ('unr', c), conds)
        return branch('L', ('unl', c), conds + ((c, 'L'),)) + branch('R', ('unr', c), conds + ((c, 'R'),))
    if k == 'fail':
        return [Outcome(conds, BOT, frozenset())]
    if k == 'hole':
        a = ('app', t[1], x)
        return [Outcome(conds, a, frozenset([a]))]
    if k == 'jet':
        a = ('app', 'jet:' + t[1], x)
        return [Outcome(conds, a, frozenset([a]))]
    if k == 'witness':
        return [Outcome(conds, ('wit', t[1]), frozenset())]
    if k == 'scribe':
        return [Outcome(conds, ('const', t[1]), frozenset())]
    raise Opaque('cannot evaluate ' + tstr(t))


def outcomes_key(outs):
    return sorted(o.key() for o in outs)


def equivalent(t1, t2, x):
    return outcomes_key(evaluate(t1, x)) == outcomes_key(evaluate(t2, x))
