"""G1/G2: iterator typestate of pest pair consumption against the grammar's child-sequence automaton.

For a grammar rule R the sequences of child pairs form a regular language over rule names (sequence =
concatenation, ordered choice = union, ?/*/+ as usual, silent rules inlined, atomic rules childless,
look-aheads and literals produce nothing, EOI is a child). This over-approximates what the PEG can
produce, which is the sound direction for panic-freedom.  Parser functions are walked path by path;
`into_inner()` creates an automaton state set, `next()`/`peek()` + `unwrap()` must not be possible at a
state that may be final, switches on `as_rule()` refine the state/rule sets; paths whose rule set becomes
empty are infeasible (this discharges the `unreachable!("Corrupt grammar")` arms)."""
import re

from .core import Explorer, sv, walk, short
from .grammar import Grammar, BUILTIN
from .util import is_call, calls_in


class NFA:
    def __init__(self):
        self.n = 0
        self.eps = {}
        self.tr = {}     # state -> [(symbol, state)]

    def new(self):
        self.n += 1
        return self.n - 1

    def add_eps(self, a, b):
        self.eps.setdefault(a, set()).add(b)

    def add(self, a, sym, b):
        self.tr.setdefault(a, []).append((sym, b))

    def closure(self, states):
        out = set(states)
        st = list(states)
        while st:
            s = st.pop()
            for t in self.eps.get(s, ()):
                if t not in out:
                    out.add(t)
                    st.append(t)
        return frozenset(out)


class ChildLang:
    """Child-sequence automata of all grammar rules."""

    def __init__(self, grammar_rules):
        self.g = Grammar(grammar_rules)
        self.cache = {}

    def build(self, rule):
        if rule in self.cache:
            return self.cache[rule]
        r = self.g.G.get(rule)
        nfa = NFA()
        start, end = nfa.new(), nfa.new()
        if r is None or r['ty'] == 'atomic':
            nfa.add_eps(start, end)       # atomic rules (and EOI etc.) have no children
        else:
            self._expr(nfa, r['e'], start, end, (rule,))
        self.cache[rule] = (nfa, start, end)
        return self.cache[rule]

    def _expr(self, nfa, e, a, b, stack):
        k = e['k']
        if k in ('str', 'insens', 'range', 'pos', 'neg'):
            nfa.add_eps(a, b)
        elif k == 'ident':
            v = e['v']
            if v in BUILTIN or v in ('ANY', 'SOI', 'NEWLINE', 'ASCII', 'PEEK', 'POP', 'DROP') or v.startswith('ASCII_'):
                nfa.add_eps(a, b)
            elif v == 'EOI':
                nfa.add(a, 'EOI', b)
            elif v in self.g.G:
                r = self.g.G[v]
                if r['ty'] == 'silent':
                    if v in stack:
                        # recursive silent rule: over-approximate by any sequence of its possible symbols
                        nfa.add_eps(a, b)
                    else:
                        self._expr(nfa, r['e'], a, b, stack + (v,))
                else:
                    nfa.add(a, v, b)
            else:
                nfa.add_eps(a, b)
        elif k == 'seq':
            m = nfa.new()
            self._expr(nfa, e['a'], a, m, stack)
            self._expr(nfa, e['b'], m, b, stack)
        elif k == 'choice':
            self._expr(nfa, e['a'], a, b, stack)
            self._expr(nfa, e['b'], a, b, stack)
        elif k == 'opt':
            nfa.add_eps(a, b)
            self._expr(nfa, e['e'], a, b, stack)
        elif k in ('rep', 'rep1'):
            m1, m2 = nfa.new(), nfa.new()
            nfa.add_eps(a, m1)
            self._expr(nfa, e['e'], m1, m2, stack)
            nfa.add_eps(m2, m1)
            nfa.add_eps(m2, b)
            if k == 'rep':
                nfa.add_eps(a, b)
        else:
            nfa.add_eps(a, b)

    def symbols(self, rule):
        nfa, s, e = self.build(rule)
        return {sym for trs in nfa.tr.values() for sym, _ in trs}

    def min_max_children(self, rule):
        nfa, s, e = self.build(rule)
        # BFS for min length
        from collections import deque
        start = nfa.closure([s])
        seen = {start: 0}
        dq = deque([start])
        mn = None
        while dq:
            cur = dq.popleft()
            if e in cur:
                mn = seen[cur] if mn is None else min(mn, seen[cur])
            nxt = {}
            for st in cur:
                for sym, t in nfa.tr.get(st, ()):
                    nxt.setdefault(sym, set()).add(t)
            for sym, ts in nxt.items():
                c = nfa.closure(ts)
                if c not in seen:
                    seen[c] = seen[cur] + 1
                    dq.append(c)
        return mn


class IterState:
    """State of one `Pairs` iterator: (rule -> automaton state set) for every rule the parent pair may have."""

    def __init__(self, lang, rules):
        self.lang = lang
        self.states = {}
        for r in rules:
            nfa, s, e = lang.build(r)
            self.states[r] = nfa.closure([s])
        self.peek_filter = None

    def copy(self):
        c = IterState.__new__(IterState)
        c.lang = self.lang
        c.states = dict(self.states)
        c.peek_filter = self.peek_filter
        return c

    def may_be_empty(self):
        """True if some parent rule's automaton can be at its end here (next() may return None)."""
        for r, st in self.states.items():
            nfa, s, e = self.lang.build(r)
            if e in st and not self._filtered_only(r):
                return True
        return False

    def _filtered_only(self, r):
        return False

    def next_symbols(self):
        out = set()
        for r, st in self.states.items():
            nfa, s, e = self.lang.build(r)
            for q in st:
                for sym, t in nfa.tr.get(q, ()):
                    if self.peek_filter is None or sym in self.peek_filter:
                        out.add(sym)
        return out

    def advance(self):
        """Consume one child: returns the set of possible rules of that child."""
        syms = set()
        new = {}
        for r, st in self.states.items():
            nfa, s, e = self.lang.build(r)
            ts = set()
            for q in st:
                for sym, t in nfa.tr.get(q, ()):
                    if self.peek_filter is None or sym in self.peek_filter:
                        syms.add(sym)
                        ts.add(t)
            if ts:
                new[r] = nfa.closure(ts)
        self.states = new
        self.peek_filter = None
        return syms

    def refine_peek(self, labels, must_exist):
        """The next child (peeked) has a rule in `labels`; must_exist: peek returned Some."""
        self.peek_filter = set(labels) if self.peek_filter is None else (self.peek_filter & set(labels))
        # drop parent rules that cannot produce such a child here
        keep = {}
        for r, st in self.states.items():
            nfa, s, e = self.lang.build(r)
            if any(sym in self.peek_filter for q in st for sym, t in nfa.tr.get(q, ())):
                keep[r] = st
        self.states = keep

    def feasible(self):
        return bool(self.states)

    def reachable_symbols(self):
        out = set()
        for r, st in self.states.items():
            nfa, s, e = self.lang.build(r)
            seen = set(st)
            work = list(st)
            while work:
                q = work.pop()
                for t in nfa.eps.get(q, ()):
                    if t not in seen:
                        seen.add(t)
                        work.append(t)
                for sym, t in nfa.tr.get(q, ()):
                    out.add(sym)
                    if t not in seen:
                        seen.add(t)
                        work.append(t)
        if self.peek_filter is not None:
            # the very next symbol is restricted, later ones are not: keep it simple and sound
            pass
        return out

    def restrict_parents(self, rules):
        self.states = {r: st for r, st in self.states.items() if r in rules}

    def skip_while(self, accepted):
        """Consume greedily any number of children whose rule is in `accepted`; afterwards the next child (if any) is not in `accepted`."""
        new = {}
        for r, st in self.states.items():
            nfa, s, e = self.lang.build(r)
            seen = set(st)
            work = list(st)
            while work:
                q = work.pop()
                for t in nfa.eps.get(q, ()):
                    if t not in seen:
                        seen.add(t)
                        work.append(t)
                for sym, t in nfa.tr.get(q, ()):
                    if sym in accepted and t not in seen:
                        seen.add(t)
                        work.append(t)
            new[r] = frozenset(seen)
        self.states = new
        allsyms = set()
        for r in self.states:
            allsyms |= self.lang.symbols(r)
        self.peek_filter = allsyms - set(accepted)


RULE_ENUM = 'parse::Rule'


def _labels(label, universe=None):
    """Rule names of a switch label; `!a|b` (complement form used for large enums) needs the universe."""
    if label.startswith('!'):
        if universe is None:
            raise ValueError('complement label without universe: ' + label[:60])
        return set(universe) - set(label[1:].split('|'))
    return set(label.split('|'))


class ShapeSim:
    """Whole-crate driver: entry rule sets of parser functions are propagated to a fixpoint."""

    WRAPPERS = ('parse::PatternPair', 'parse::TyPair')

    def __init__(self, fx):
        self.fx = fx
        self.lang = ChildLang(fx.grammar)
        self.all_rules = set(self.lang.g.order) | {'EOI'}
        self.entry = {}        # fn path -> {param index -> set of rules}
        self.results = {}      # fn path -> {bb: status}
        self.node_sets = {}    # wrapper -> set of rules
        self.rule_consts = {}
        for p, f in fx.F.items():
            m = re.match(r'^<(.*) as parse::PestParse>::RULE$', p)
            if m:
                r = [x for x in Explorer(f, facts=fx).run() if x[0] == 'RET']
                if r and r[0][2][0] == 'agg':
                    self.rule_consts[m.group(1)] = r[0][2][1].split('::')[-1]

    def parser_fns(self):
        out = []
        for p, f in self.fx.F.items():
            if f.macro or '::promoted[' in p or f.kind in ('Const', 'AssocConst'):
                continue
            if re.match(r'^<.* as parse::PestParse>::parse(::\{closure#\d+\})*$', p) or re.match(r'^<parse::(PatternPair|TyPair)<\'_> as miniscript::iter::TreeLike>::as_node$', p):
                out.append(p)
        return sorted(out)

    def add_entry(self, path, idx, rules):
        e = self.entry.setdefault(path, {})
        old = e.get(idx, set())
        new = old | set(rules)
        if new != old:
            e[idx] = new
            return True
        return False

    def run(self):
        fns = self.parser_fns()
        for p in fns:
            m = re.match(r'^<(.*) as parse::PestParse>::parse$', p)
            if m and m.group(1) in self.rule_consts:
                self.add_entry(p, 0, {self.rule_consts[m.group(1)]})
        changed = True
        rounds = 0
        self.helpers = []      # other local functions that receive a pair whose rule set is known (extracted helpers)
        while changed and rounds < 12:
            changed = False
            rounds += 1
            for p in fns + list(self.helpers):
                if p not in self.entry:
                    continue
                if self.simulate(p):
                    changed = True
        self.rounds = rounds
        return self

    # ---------------------------------------------------------------------------------
    def simulate(self, path):
        fn = self.fx.F[path]
        entry = self.entry.get(path, {})
        changed = False
        status = {}
        is_as_node = path.endswith('::as_node')
        for kind, p, ret in Explorer(fn, facts=self.fx, keep_site=True, max_visits=2, inline_new=False).run():
            if p is None:
                continue
            rules = {}
            iters = {}
            maybe_none = {}
            payload_of = {}     # option value -> (syms, iterator key or None)
            peeklink = {}
            take_sets = {}
            iter_parent = {}
            feasible = True
            for i, rs in entry.items():
                pv = ('param', i, fn.names.get(i + 1, 'arg%d' % i))
                if is_as_node:
                    rules[('field', pv, '0')] = set(rs)
                else:
                    rules[pv] = set(rs)
            applied = 0

            def rules_of(v):
                if v in rules:
                    return rules[v]
                # .node.0 of a post_order_iter item over a wrapper
                if isinstance(v, tuple) and v[0] == 'field' and v[2] == '0' and isinstance(v[1], tuple) and v[1][0] == 'field' and v[1][2] == 'node':
                    for x in walk(v):
                        if is_call(x) and x[1].endswith('post_order_iter'):
                            w = x[2][0]
                            if isinstance(w, tuple) and w[0] == 'agg' and w[1].startswith('adt:parse::'):
                                wname = w[1][4:].rsplit('::', 1)[0]
                                inner = rules_of(w[2][0])
                                if inner is not None:
                                    return self.node_set(wname, inner)
                    return None
                if isinstance(v, tuple) and v[0] == 'field' and v[2] == '0' and isinstance(v[1], tuple) and v[1][0] == 'down' and v[1][2] == 'Some':
                    src = v[1][1]
                    if src in payload_of:
                        return payload_of[src][0]
                return None

            def remaining(itv):
                """All symbols an iterator value may still yield."""
                st = iters.get(itv)
                if st is None:
                    # adapters over an iterator
                    for x in walk(itv):
                        if x in iters and x is not itv:
                            st = iters[x]
                            break
                if st is None:
                    return None
                return st.reachable_symbols()

            def apply_cond(w, lab):
                nonlocal feasible
                # as_rule(X) = label
                ww = w
                if is_call(ww) and ww[1].endswith('::as_rule'):
                    X = ww[2][0]
                    cur = rules_of(X)
                    if cur is None:
                        return
                    labs = _labels(lab, cur)
                    new = cur & labs
                    rules[X] = new
                    for ik, par in iter_parent.items():
                        if par == X and ik in iters:
                            iters[ik].restrict_parents(new)
                    if X in peeklink and peeklink[X] in iters:
                        iters[peeklink[X]].refine_peek(labs, True)
                    if not new:
                        feasible = False
                    return
                # Option discriminant of next()/peek()
                if ww in maybe_none and lab in ('None', 'Some'):
                    if lab == 'None' and not maybe_none[ww]:
                        feasible = False
                    if lab == 'Some' and ww in payload_of and not payload_of[ww][0]:
                        feasible = False

            events = [e for e in p.events if e[0] == 'call']
            for e in events:
                while applied < min(e[5], len(p.conds)):
                    apply_cond(*p.conds[applied])
                    applied += 1
                if not feasible:
                    break
                callee, a, line, bb = e[1], e[2], e[3], e[4]
                blk = fn.blocks[bb]
                val = None
                # the call value as the explorer built it (with site)
                t = blk['term']
                site = (bb, line)
                last = callee.split('::')[-1]
                # reconstruct call value key
                def callval():
                    inst = t['f'].get('inst', '')
                    from .core import norm_inst
                    return ('call', callee, a, norm_inst(inst), site)
                if last == 'into_inner' and 'Pair' in callee:
                    rs = rules_of(a[0])
                    if rs is not None:
                        iters[callval()] = IterState(self.lang, rs)
                        iter_parent[callval()] = a[0]
                elif last in ('next', 'peek') and a:
                    itv = a[0]
                    st = iters.get(itv)
                    if st is None:
                        # peekable()/other adapters wrapping a tracked iterator share its state
                        for x in walk(itv):
                            if x in iters:
                                st = iters[x]
                                iters[itv] = st
                                break
                    if st is not None:
                        cv = callval()
                        if last == 'next':
                            maybe_none[cv] = st.may_be_empty()
                            payload_of[cv] = (st.advance(), None)
                        else:
                            maybe_none[cv] = st.may_be_empty()
                            payload_of[cv] = (st.next_symbols(), itv)
                elif last in ('unwrap', 'expect') and a and ('Option' in callee):
                    src = a[0]
                    if src in maybe_none:
                        ok = not maybe_none[src]
                        prev = status.get(bb)
                        status[bb] = 'may' if (not ok or prev == 'may') else 'safe'
                        cv = callval()
                        rules[cv] = set(payload_of[src][0])
                        if payload_of[src][1] is not None:
                            peeklink[cv] = payload_of[src][1]
                    else:
                        status.setdefault(bb, 'unknown')
                elif re.match(r'^<.* as parse::PestParse>::parse$', callee) and a:
                    rs = rules_of(a[0])
                    if rs is None:
                        rs = None
                    if self.add_entry(callee, 0, rs if rs is not None else {'?UNKNOWN'}):
                        changed = True
                elif callee in self.fx.F and not self.fx.F[callee].macro and self.fx.F[callee].kind in ('Fn', 'AssocFn') and any(rules_of(x) is not None for x in a) \
                        and not re.match(r'^<.* as parse::PestParse>::parse$', callee):
                    # a local helper that is handed a pair: simulate it with that entry set
                    for i, x in enumerate(a):
                        rs = rules_of(x)
                        if rs is not None:
                            if self.add_entry(callee, i, rs):
                                changed = True
                    if callee not in self.helpers:
                        self.helpers.append(callee)
                        changed = True
                elif last == 'filter' and len(a) >= 2 and a[1][0] == 'agg' and a[1][1].startswith('closure:'):
                    # pairs.filter(|p| matches!(p.as_rule(), ..)): the adapter yields the accepted rules only
                    acc = self.accepted_by(a[1][1][8:])
                    if acc is not None:
                        rem0 = remaining(a[0])
                        take_sets[callval()] = (rem0 & acc) if rem0 is not None else acc
                elif last in ('map', 'filter_map', 'peeking_take_while', 'for_each', 'any', 'all') and len(a) >= 2:
                    f = a[1]
                    src = a[0]
                    if src in payload_of:      # Option::map(next(), closure)
                        rem = payload_of[src][0]
                    else:
                        rem = remaining(src)
                    if last == 'peeking_take_while' and f[0] == 'agg' and f[1].startswith('closure:'):
                        acc = self.accepted_by(f[1][8:])
                        st0 = iters.get(src)
                        if st0 is None:
                            for x in walk(src):
                                if x in iters:
                                    st0 = iters[x]
                                    break
                        if acc is not None and st0 is not None:
                            taken = (rem & acc) if rem is not None else acc
                            take_sets[callval()] = taken
                            st0.skip_while(acc)
                    if src in take_sets:
                        rem = take_sets[src]
                    if f[0] == 'fn':
                        tgt = f[1]
                        if re.match(r'^<.* as parse::PestParse>::parse$', tgt):
                            if self.add_entry(tgt, 0, rem if rem is not None else {'?UNKNOWN'}):
                                changed = True
                        if tgt in self.WRAPPERS and is_as_node:
                            self._child(path, rem)
                    elif f[0] == 'agg' and f[1].startswith('closure:'):
                        cp = f[1][8:]
                        if cp in self.fx.F and rem is not None:
                            if self.add_entry(cp, 1, rem):
                                changed = True
                if t['target'] < 0:
                    # diverging call reached on a feasible path
                    status[bb] = 'may'
            # conditions after the last event
            if feasible:
                while applied < len(p.conds):
                    apply_cond(*p.conds[applied])
                    applied += 1
            if kind == 'DIVERGE' and feasible:
                status[p.bb] = 'may'
            elif kind == 'DIVERGE' and not feasible:
                status.setdefault(p.bb, 'infeasible')
            if is_as_node and feasible and kind == 'RET':
                for x in walk(ret):
                    if x[0] == 'agg' and x[1].startswith('adt:parse::') and x[1][4:].rsplit('::', 1)[0] in self.WRAPPERS:
                        rs = rules_of(x[2][0])
                        self._child(path, rs)
        old = self.results.get(path)
        self.results[path] = status
        return changed or old != status

    def accepted_by(self, closure_path):
        """Rules for which a predicate closure `|pair| matches!(pair.as_rule(), ..)` may return true; None if not of that shape."""
        fn = self.fx.F.get(closure_path)
        if fn is None:
            return None
        acc = set()
        for kind, p, ret in Explorer(fn, facts=self.fx, inline_new=False).run():
            if kind != 'RET':
                return None
            labs = [l for w, l in p.conds if is_call(w) and w[1].endswith('::as_rule')]
            if ret == ('const', 'true', 'bool'):
                if len(labs) != 1:
                    return None
                acc |= _labels(labs[0], self.all_rules)
            elif ret != ('const', 'false', 'bool'):
                return None
        return acc

    def _child(self, as_node_path, rs):
        m = re.match(r"^<(parse::\w+)<'_> as", as_node_path)
        w = m.group(1)
        cur = self.node_sets.setdefault(w, set())
        if rs is None:
            rs = {'?UNKNOWN'}
        if not set(rs) <= cur:
            cur |= set(rs)
            # re-seed the as_node entry
            self.add_entry(as_node_path, 0, cur)

    def node_set(self, wrapper, roots):
        """Rules of all nodes of the wrapper tree whose root pair has a rule in `roots`."""
        path = "<%s<'_> as miniscript::iter::TreeLike>::as_node" % wrapper
        cur = self.node_sets.setdefault(wrapper, set())
        if not set(roots) <= cur:
            cur |= set(roots)
            self.add_entry(path, 0, cur)
            for _ in range(8):
                before = set(cur)
                self.simulate(path)
                if self.node_sets[wrapper] == before:
                    break
        return set(self.node_sets[wrapper])
