"""Check runner: `python3 -m sa.run <property id> <quick|thorough>`.

Loads facts for /repo's current working tree, runs the rule set of the property, writes
/verif/evidence/<id>.json, prints VIOLATION / KNOWN-FINDING lines, exits 0/1."""
import importlib
import json
import re
import os
import sys
import time
import traceback

from . import core, extract

VERIF = extract.VERIF


class Ctx:
    def __init__(self, pid, tier):
        self.pid = pid
        self.tier = tier
        self.obligations = []          # dicts: rule key ok desc where detail
        self.analysed = {'functions': set(), 'call_sites': 0, 'paths': 0}
        self.notes = []
        self._facts = {}
        self.rules = {}                # rule id -> description
        self.cited_rules = {}          # rule ids cited by the reviewed reasons of panic-site discharges -> first citing site
        self.not_decided = []
        self.assumptions = []

    def facts(self, config='default'):
        if config not in self._facts:
            self._facts[config] = core.Facts(config)
        return self._facts[config]

    def rule(self, rid, text):
        self.rules[rid] = text

    def ob(self, rule, key, ok, desc, where=None, detail=None):
        """Record one obligation (rule instance). key identifies the instance without line numbers."""
        self.obligations.append({'rule': rule, 'key': key, 'ok': bool(ok), 'desc': desc, 'where': where, 'detail': detail})
        return bool(ok)

    def floor(self, rule, what, count, minimum):
        """Fail closed when a rule matched fewer instances than were confirmed by hand."""
        self.ob(rule, 'floor:%s' % what, count >= minimum,
                '%s: %d instances found (floor %d)' % (what, count, minimum))

    def saw(self, fn):
        self.analysed['functions'].add(fn.path if hasattr(fn, 'path') else str(fn))

    def anchor(self, facts, path, crate='simfony'):
        fn = facts.fn(path, crate)
        self.saw(fn)
        return fn


def load_known():
    p = os.path.join(VERIF, 'known_findings.json')
    if not os.path.exists(p):
        return []
    return json.load(open(p)).get('findings', [])


def sensitivity(pid):
    """Thorough tier: is the rule set of this property still armed?  Every stored seeded change written against this property
    (seeded/<id>/patch.diff, a change that breaks the property while the pinned suite passes) is applied to a scratch copy
    of /repo's current tree outside /repo and /verif, the quick check is run on that copy, and the rules that report it are
    recorded.  Informational: the verdict about /repo never depends on it (a patch that no longer applies is skipped)."""
    import glob, shutil, subprocess, tempfile
    from concurrent.futures import ThreadPoolExecutor
    seeds = []
    for mp in sorted(glob.glob(os.path.join(VERIF, 'seeded', '*', 'meta.json'))):
        try:
            m = json.load(open(mp))
        except ValueError:
            continue
        if m.get('breaks_property') == pid:
            seeds.append((m['id'], os.path.join(os.path.dirname(mp), 'patch.diff')))

    def one(item):
        sid, patch = item
        tmp = tempfile.mkdtemp(prefix='verif-sens-')
        try:
            dst = os.path.join(tmp, 'repo')
            shutil.copytree(extract.REPO, dst, ignore=shutil.ignore_patterns('target', '.git', 'fuzz', 'book', 'vscode', 'bitcoind-tests'))
            a = subprocess.run(['git', 'apply', patch], cwd=dst, capture_output=True, text=True)
            if a.returncode != 0:
                return sid, 'skipped: patch does not apply to the current tree'
            env = dict(os.environ, VERIF_REPO=dst)
            r = subprocess.run([os.path.join(VERIF, 'check'), pid, 'quick'], cwd=VERIF, env=env, capture_output=True, text=True)
            rules = sorted({l.split()[1] for l in r.stdout.splitlines() if l.startswith('  rule ') and re.search(r'failed=[1-9]', l)})
            known = {k['key'] for k in load_known() if k.get('status') == 'known' and k['property'] == pid}
            reported = [l for l in r.stdout.splitlines() if l.startswith('VIOLATION')]
            return sid, ('reported by ' + ', '.join(rules)) if reported else 'NOT reported'
        finally:
            shutil.rmtree(tmp, ignore_errors=True)
    with ThreadPoolExecutor(4) as ex:
        res = dict(ex.map(one, seeds))
    return {'what': 'stored seeded changes against this property applied to a scratch copy of the current tree; quick check run on the copy',
            'seeds': len(seeds), 'reported': sum(1 for v in res.values() if v.startswith('reported')), 'results': res}


# rules that run under the id of the including property: cited id -> ids it is also evaluated as
META_ALIAS = {'R12.2': ('R03.5',), 'R01.8': ('R06.7',)}


def main(argv):
    pid = argv[1]
    tier = argv[2] if len(argv) > 2 else os.environ.get('VERIF_TIER', 'quick')
    if tier not in ('quick', 'thorough'):
        tier = 'quick'
    seed = int(os.environ.get('VERIF_SEED', '0') or 0)
    t0 = time.time()
    ctx = Ctx(pid, tier)
    mod = importlib.import_module('sa.props.' + pid.lower())
    try:
        mod.check(ctx)
    except core.MissingAnchor as e:
        ctx.ob('anchor', 'missing-anchor:' + str(e), False, 'anchor missing (fail closed): %s' % e)
    except RuntimeError as e:
        # the tree does not build: nothing can be decided; report as violation of the harness contract
        ctx.ob('build', 'build-failed', False, 'facts could not be extracted: %s' % str(e)[:1500])
    except Exception:
        ctx.ob('engine', 'engine-error', False, 'rule engine error (fail closed): ' + traceback.format_exc()[-1500:])
    if ctx.cited_rules and not any(not o['ok'] and o['rule'] in ('anchor', 'build', 'engine') for o in ctx.obligations):
        # a reviewed discharge reason that rests on another rule is only as good as that rule: it must have run in this check
        ctx.rule('META.1', 'every rule cited by the reviewed reason of a panic-site discharge used in this check has been evaluated in this check')
        for cited, site in sorted(ctx.cited_rules.items()):
            ran = any(o['rule'] in (cited,) + META_ALIAS.get(cited, ()) for o in ctx.obligations)
            ctx.ob('META.1', 'cited:' + cited, ran, 'rule %s (cited by the discharge of %s) is part of this check' % (cited, site))
    known = {(k['property'], k['key']): k for k in load_known() if k.get('status') == 'known'}
    bad = [o for o in ctx.obligations if not o['ok']]
    viol, kf = [], []
    for o in bad:
        if (pid, o['key']) in known:
            kf.append(o)
        else:
            viol.append(o)
    wall = time.time() - t0
    total = len(ctx.obligations)
    distinct = len({(o['rule'], o['key']) for o in ctx.obligations})
    samples = []
    seen_rules = set()
    for o in ctx.obligations:
        if o['rule'] not in seen_rules and len(samples) < 12:
            seen_rules.add(o['rule'])
            samples.append({k: v for k, v in o.items() if v is not None and k != 'detail'} | ({'detail': str(o['detail'])[:400]} if o.get('detail') else {}))
    per_rule = {}
    for o in ctx.obligations:
        r = per_rule.setdefault(o['rule'], {'instances': 0, 'failed': 0})
        r['instances'] += 1
        r['failed'] += 0 if o['ok'] else 1
    ev = {
        'property_id': pid,
        'tier': tier,
        'seed': seed,
        'level': 'other',
        'coverage': {
            'explanation': getattr(mod, 'EXPLANATION', '') or 'static rules over the MIR facts / grammar of /repo',
            'obligations': total,
            'discharged': total - len(bad),
            'evaluations': max(total, 1),
            'distinct_nontrivial': distinct,
            'rule': 'one obligation per rule instance (call site, guard, table cell, path); distinct = distinct (rule, site key)',
            'samples': samples or [{'note': 'no obligations'}],
            'rules': ctx.rules,
            'per_rule': per_rule,
            'functions_analysed': len(ctx.analysed['functions']),
            'functions_analysed_list': sorted(ctx.analysed['functions'])[:60],
            'paths_explored': ctx.analysed['paths'],
            'known_findings_reported': [o['key'] for o in kf],
            'not_decided': getattr(mod, 'NOT_DECIDED', []),
            'tree_hash': extract.tree_hash(),
            'checker_cmd': './check %s %s' % (pid, tier),
            'trusted_base': ['rustc nightly MIR construction and trait resolution', 'pest_meta 2.7.3 grammar parser', 'simplicity-lang 0.4.0 API contracts'],
        },
        'assumptions': getattr(mod, 'ASSUMPTIONS', []),
        'wall_s': round(wall, 2),
        'violations': len(viol),
    }
    if tier == 'thorough' and not os.environ.get('VERIF_REPO') and not viol:
        ev['coverage']['sensitivity'] = sensitivity(pid)
    # development runs against a scratch copy (VERIF_REPO=...) must not overwrite the evidence of /repo
    evdir = os.path.join(VERIF, 'evidence') if not os.environ.get('VERIF_REPO') else os.path.join(VERIF, 'build', 'evidence-scratch')
    os.makedirs(evdir, exist_ok=True)
    with open(os.path.join(evdir, pid + '.json'), 'w') as f:
        json.dump(ev, f, indent=1, sort_keys=True)
    print('[%s %s] %d obligations over %d rules, %d functions analysed, %.1fs' % (pid, tier, total, len(per_rule), len(ctx.analysed['functions']), wall))
    for r, c in sorted(per_rule.items()):
        print('  rule %-10s instances=%-4d failed=%d  %s' % (r, c['instances'], c['failed'], ctx.rules.get(r, '')[:110]))
    for o in kf:
        print('KNOWN-FINDING: property=%s %s :: %s' % (pid, o['key'], o['desc']))
    rdir = os.path.join(VERIF, 'build', 'replay')
    os.makedirs(rdir, exist_ok=True)
    import glob as _glob
    for old in _glob.glob(os.path.join(rdir, pid + '-*.json')):
        os.remove(old)   # replay files of an earlier run of this check
    if viol:
        for i, o in enumerate(viol):
            rp = os.path.join(rdir, '%s-%d.json' % (pid, i))
            with open(rp, 'w') as f:
                json.dump(o, f, indent=1, default=str)
            print('  rule %s at %s: %s' % (o['rule'], o.get('where') or '-', o['desc']))
            if o.get('detail'):
                print('     ' + str(o['detail'])[:600])
            print('VIOLATION property=%s replay=%s' % (pid, rp))
        return 1
    return 0


if __name__ == '__main__':
    sys.exit(main(sys.argv))
