"""Helpers shared by the term rules (C01 C08 C09 C12 C14)."""
from .core import Explorer, sv
from .simpl import *
from .util import explore, cond_str


def fn_terms(ctx, fn, holes=None, **kw):
    """[(conds, term | None, error, path, ret)] for every returning path of fn; parameters become holes named by `holes` {index: name}."""
    holes = holes or {}

    def hole_of(v):
        if isinstance(v, tuple) and v and v[0] == 'param':
            return holes.get(v[1], 'p%d' % v[1])
        return None
    rc = Reconstructor(ctx.facts(), hole_of=hole_of)
    out = []
    for kind, p, ret in explore(ctx, fn, **kw):
        if kind != 'RET':
            continue
        try:
            t = rc.term(ret)
            out.append((p.conds, t, None, p, ret))
        except Opaque as e:
            out.append((p.conds, None, str(e), p, ret))
    for path in rc.inlined:
        ctx.analysed['functions'].add(path)
    return out


def outs_str(outs):
    return [repr(o) for o in sorted(outs, key=lambda o: o.key())]


def expect_outcomes(ctx, rid, key, desc, where, term, inp, expected):
    """expected: list of (conds tuple of (value str, 'L'|'R'), value str, forced tuple of str), compared as sets."""
    try:
        outs = evaluate(term, inp)
    except Opaque as e:
        return ctx.ob(rid, key, False, desc, where, 'term cannot be evaluated: %s; term = %s' % (e, tstr(term)))
    got = sorted(o.key() for o in outs)
    exp = sorted((tuple(sorted(c)), v, tuple(sorted(f))) for c, v, f in expected)
    ok = got == exp
    detail = 'term = %s\n     on input %s:\n       ' % (tstr(term), vstr(inp)) + '\n       '.join(outs_str(outs))
    if not ok:
        detail += '\n     expected:\n       ' + '\n       '.join('[%s] ↦ %s forces{%s}' % (' & '.join('%s is %s' % x for x in c), v, ', '.join(f)) for c, v, f in exp)
    return ctx.ob(rid, key, ok, desc, where, detail)
