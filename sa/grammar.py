"""Analyses over the pest grammar AST (engine E3 output)."""

IDC = set('abcdefghijklmnopqrstuvwxyzABCDEFGHIJKLMNOPQRSTUVWXYZ0123456789_')
ALPHA = set('abcdefghijklmnopqrstuvwxyzABCDEFGHIJKLMNOPQRSTUVWXYZ')
DIGIT = set('0123456789')
BUILTIN = {'ASCII_ALPHA': ALPHA, 'ASCII_ALPHANUMERIC': ALPHA | DIGIT, 'ASCII_DIGIT': DIGIT,
           'ASCII_BIN_DIGIT': set('01'), 'ASCII_HEX_DIGIT': set('0123456789abcdefABCDEF'),
           'ASCII_ALPHA_LOWER': set('abcdefghijklmnopqrstuvwxyz'), 'ASCII_ALPHA_UPPER': set('ABCDEFGHIJKLMNOPQRSTUVWXYZ')}


class Grammar:
    def __init__(self, rules):
        self.G = {r['name']: r for r in rules}
        self.order = [r['name'] for r in rules]

    def rule(self, name):
        return self.G[name]

    # -- structure helpers
    @staticmethod
    def flatten_choice(e):
        return Grammar.flatten_choice(e['a']) + Grammar.flatten_choice(e['b']) if e['k'] == 'choice' else [e]

    @staticmethod
    def flatten_seq(e):
        return Grammar.flatten_seq(e['a']) + Grammar.flatten_seq(e['b']) if e['k'] == 'seq' else [e]

    def charclass(self, e, seen=()):
        """Set of characters matched by an expression that matches exactly one char; None otherwise."""
        k = e['k']
        if k == 'str':
            return {e['v']} if len(e['v']) == 1 else None
        if k == 'range':
            return set(chr(c) for c in range(ord(e['a']), ord(e['b']) + 1))
        if k == 'ident':
            if e['v'] in BUILTIN:
                return set(BUILTIN[e['v']])
            if e['v'] in self.G and e['v'] not in seen:
                return self.charclass(self.G[e['v']]['e'], seen + (e['v'],))
            return None
        if k == 'choice':
            a, b = self.charclass(e['a'], seen), self.charclass(e['b'], seen)
            return None if a is None or b is None else a | b
        return None

    def ident_shape(self, name):
        """(first class, rest class) when rule `name` is `C1 ~ C2*` (atomic identifier-like), else None."""
        r = self.G.get(name)
        if not r or r['ty'] not in ('atomic', 'compound'):
            return None
        parts = self.flatten_seq(r['e'])
        if len(parts) != 2 or parts[1]['k'] != 'rep':
            return None
        a, b = self.charclass(parts[0]), self.charclass(parts[1]['e'])
        if a is None or b is None:
            return None
        return a, b

    def ident_rules(self):
        return [n for n in self.order if self.ident_shape(n) and self.ident_shape(n)[0] <= ALPHA | set('_') and len(self.ident_shape(n)[1]) > 10]

    def keyword_like(self, e, idrules, seen=()):
        """If e = (lit | lit | ...) [~ !class], possibly through rule references, return
        (ordered literals, guard class); ('MIXED',) for a choice of guarded and unguarded parts that
        cannot be summarised; None when e is not keyword-like."""
        k = e['k']
        if k == 'str':
            return ([e['v']], set())
        if k == 'ident' and e['v'] in self.G and e['v'] not in idrules and e['v'] not in seen:
            return self.keyword_like(self.G[e['v']]['e'], idrules, seen + (e['v'],))
        if k == 'choice':
            a, b = self.keyword_like(e['a'], idrules, seen), self.keyword_like(e['b'], idrules, seen)
            if a and b and a[0] != 'MIXED' and b[0] != 'MIXED' and a[1] == b[1]:
                return (a[0] + b[0], a[1])
            if a and b:
                return ('MIXED', a, b)
            return None
        if k == 'seq' and e['b']['k'] == 'neg':
            a = self.keyword_like(e['a'], idrules, seen)
            c = self.charclass(e['b']['e'])
            if a and a[0] != 'MIXED' and c is not None:
                return (a[0], a[1] | c)
        return None

    def kw_parts(self, e, idrules):
        """Flatten keyword_like results (incl. MIXED) into a list of (literals, guard)."""
        kw = self.keyword_like(e, idrules)
        out = []

        def rec(x):
            if not x:
                return
            if x[0] == 'MIXED':
                rec(x[1])
                rec(x[2])
            else:
                out.append(x)
        rec(kw)
        return out

    def starts_with_ident(self, e, idrules, seen=()):
        """Name of the identifier-like rule the expression begins with (after look-aheads), or None."""
        k = e['k']
        if k == 'ident':
            if e['v'] in idrules:
                return e['v']
            if e['v'] in self.G and e['v'] not in seen:
                return self.starts_with_ident(self.G[e['v']]['e'], idrules, seen + (e['v'],))
            return None
        if k == 'seq':
            for part in self.flatten_seq(e):
                if part['k'] in ('neg', 'pos'):
                    continue
                return self.starts_with_ident(part, idrules, seen)
        if k == 'choice':
            for alt in self.flatten_choice(e):
                r = self.starts_with_ident(alt, idrules, seen)
                if r:
                    return r
        return None

    @staticmethod
    def captured(lits, guard):
        """Literals w (identifier-shaped) for which some identifier w·c… (c an identifier character not
        excluded by the guard) is captured, with the free characters."""
        out = []
        free = IDC - guard
        for w in lits:
            if not w or w[0] not in ALPHA or any(ch not in IDC for ch in w):
                continue
            if free:
                out.append((w, ''.join(sorted(free))))
        return out

    def keyword_capture(self):
        """RF-G(i). Returns (positions analysed, findings). A finding is
        (kind, rule, competitor description, literal, free chars)."""
        idrules = set(self.ident_rules())
        findings = []
        positions = []
        # (b) negative look-aheads in front of an identifier role
        for name in self.order:
            parts = self.flatten_seq(self.G[name]['e'])
            for i, p in enumerate(parts):
                if p['k'] != 'neg':
                    continue
                role = None
                for q in parts[i + 1:]:
                    if q['k'] in ('neg', 'pos'):
                        continue
                    role = self.starts_with_ident(q, idrules)
                    break
                if not role:
                    continue
                desc = p['e'].get('v', p['e']['k'])
                kws = self.kw_parts(p['e'], idrules)
                positions.append(('lookahead', name, desc, role, sum(len(k[0]) for k in kws)))
                if not kws:
                    findings.append(('lookahead-opaque', name, desc, '?', ''))
                for lits, guard in kws:
                    for w, free in self.captured(lits, guard):
                        findings.append(('lookahead', name, desc, w, free))

        # (a) ordered choice: literal-only alternatives before an identifier-starting alternative
        def scan(name, e):
            k = e['k']
            if k == 'choice':
                alts = self.flatten_choice(e)
                for j, alt in enumerate(alts):
                    role = self.starts_with_ident(alt, idrules)
                    if role:
                        for prev in alts[:j]:
                            desc = prev.get('v', prev['k'])
                            kws = self.kw_parts(prev, idrules)
                            if kws:
                                positions.append(('choice', name, desc, role, sum(len(k[0]) for k in kws)))
                            for lits, guard in kws:
                                for w, free in self.captured(lits, guard):
                                    findings.append(('choice', name, desc, w, free))
                for alt in alts:
                    scan(name, alt)
            elif k == 'seq':
                scan(name, e['a'])
                scan(name, e['b'])
            elif k in ('opt', 'rep', 'rep1', 'pos', 'neg'):
                scan(name, e['e'])
        for name in self.order:
            scan(name, self.G[name]['e'])
        # dedupe findings (a choice inside a choice is scanned at both levels)
        positions = list(dict.fromkeys(positions))
        seen = set()
        uniq = []
        for f in findings:
            if f not in seen:
                seen.add(f)
                uniq.append(f)
        return positions, uniq

    def prefix_shadowing(self):
        """Inside one keyword-like choice under a guard, an earlier literal must not be a proper prefix of a later one."""
        idrules = set(self.ident_rules())
        out = []
        n = 0
        for name in self.order:
            for lits, guard in self.kw_parts(self.G[name]['e'], idrules):
                if len(lits) < 2:
                    continue
                n += 1
                for i, a in enumerate(lits):
                    for b in lits[i + 1:]:
                        if b != a and b.startswith(a):
                            nxt = b[len(a)]
                            # with a guard excluding nxt the earlier literal fails and PEG does not retry the choice
                            out.append((name, a, b, nxt in guard))
        return n, out

    def literals(self, name, seen=()):
        """All string literals reachable from a rule (for printer-token rules)."""
        out = set()

        def rec(e, seen):
            k = e['k']
            if k in ('str', 'insens'):
                out.add(e['v'])
            elif k == 'ident':
                if e['v'] in self.G and e['v'] not in seen:
                    rec(self.G[e['v']]['e'], seen | {e['v']})
            elif k in ('seq', 'choice'):
                rec(e['a'], seen)
                rec(e['b'], seen)
            elif k in ('opt', 'rep', 'rep1', 'pos', 'neg'):
                rec(e['e'], seen)
        rec(self.G[name]['e'], frozenset([name]))
        return out
