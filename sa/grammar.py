"""Analyses over the pest grammar AST (engine E3 output)."""

IDC = set('abcdefghijklmnopqrstuvwxyzABCDEFGHIJKLMNOPQRSTUVWXYZ0123456789_')
ALPHA = set('abcdefghijklmnopqrstuvwxyzABCDEFGHIJKLMNOPQRSTUVWXYZ')
DIGIT = set('0123456789')
BUILTIN = {'ASCII_ALPHA': ALPHA, 'ASCII_ALPHANUMERIC': ALPHA | DIGIT, 'ASCII_DIGIT': DIGIT,
           'ASCII_BIN_DIGIT': set('01'), 'ASCII_NONZERO_DIGIT': set('123456789'), 'ASCII_OCT_DIGIT': set('01234567'), 'ASCII_HEX_DIGIT': set('0123456789abcdefABCDEF'),
           'ASCII_ALPHA_LOWER': set('abcdefghijklmnopqrstuvwxyz'), 'ASCII_ALPHA_UPPER': set('ABCDEFGHIJKLMNOPQRSTUVWXYZ')}



def json_str(v):
    import json as _j
    return _j.dumps(v, ensure_ascii=False)


class Grammar:
    def __init__(self, rules):
        self.G = {r['name']: r for r in rules}
        self.order = [r['name'] for r in rules]

    def rule(self, name):
        return self.G[name]

    # -- structure helpers
    @staticmethod
    def flatten_choice(e):
        return Grammar.flatten_choice(e['a']) + Grammar.flatten_choice(e['b']) if e['k'] == 'choice' else [e]

    @staticmethod
    def flatten_seq(e):
        return Grammar.flatten_seq(e['a']) + Grammar.flatten_seq(e['b']) if e['k'] == 'seq' else [e]

    def charclass(self, e, seen=()):
        """Set of characters matched by an expression that matches exactly one char; None otherwise."""
        k = e['k']
        if k == 'str':
            return {e['v']} if len(e['v']) == 1 else None
        if k == 'range':
            return set(chr(c) for c in range(ord(e['a']), ord(e['b']) + 1))
        if k == 'ident':
            if e['v'] in BUILTIN:
                return set(BUILTIN[e['v']])
            if e['v'] in self.G and e['v'] not in seen:
                return self.charclass(self.G[e['v']]['e'], seen + (e['v'],))
            return None
        if k == 'choice':
            a, b = self.charclass(e['a'], seen), self.charclass(e['b'], seen)
            return None if a is None or b is None else a | b
        return None

    def ident_shape(self, name):
        """(first class, rest class) when rule `name` is `C1 ~ C2*` (atomic identifier-like), else None."""
        r = self.G.get(name)
        if not r or r['ty'] not in ('atomic', 'compound'):
            return None
        parts = self.flatten_seq(r['e'])
        if len(parts) != 2 or parts[1]['k'] != 'rep':
            return None
        a, b = self.charclass(parts[0]), self.charclass(parts[1]['e'])
        if a is None or b is None:
            return None
        return a, b

    def ident_rules(self):
        return [n for n in self.order if self.ident_shape(n) and self.ident_shape(n)[0] <= ALPHA | set('_') and len(self.ident_shape(n)[1]) > 10]

    def keyword_like(self, e, idrules, seen=()):
        """If e = (lit | lit | ...) [~ !class], possibly through rule references, return
        (ordered literals, guard class); ('MIXED',) for a choice of guarded and unguarded parts that
        cannot be summarised; None when e is not keyword-like."""
        k = e['k']
        if k == 'str':
            return ([e['v']], set())
        if k == 'ident' and e['v'] in self.G and e['v'] not in idrules and e['v'] not in seen:
            return self.keyword_like(self.G[e['v']]['e'], idrules, seen + (e['v'],))
        if k == 'choice':
            a, b = self.keyword_like(e['a'], idrules, seen), self.keyword_like(e['b'], idrules, seen)
            if a and b and a[0] != 'MIXED' and b[0] != 'MIXED' and a[1] == b[1]:
                return (a[0] + b[0], a[1])
            if a and b:
                return ('MIXED', a, b)
            return None
        if k == 'seq' and e['b']['k'] == 'neg':
            a = self.keyword_like(e['a'], idrules, seen)
            c = self.charclass(e['b']['e'])
            if a and a[0] != 'MIXED' and c is not None:
                return (a[0], a[1] | c)
        return None

    def kw_parts(self, e, idrules):
        """Flatten keyword_like results (incl. MIXED) into a list of (literals, guard)."""
        kw = self.keyword_like(e, idrules)
        out = []

        def rec(x):
            if not x:
                return
            if x[0] == 'MIXED':
                rec(x[1])
                rec(x[2])
            else:
                out.append(x)
        rec(kw)
        return out

    def starts_with_ident(self, e, idrules, seen=()):
        """Name of the identifier-like rule the expression begins with (after look-aheads), or None."""
        k = e['k']
        if k == 'ident':
            if e['v'] in idrules:
                return e['v']
            if e['v'] in self.G and e['v'] not in seen:
                return self.starts_with_ident(self.G[e['v']]['e'], idrules, seen + (e['v'],))
            return None
        if k == 'seq':
            for part in self.flatten_seq(e):
                if part['k'] in ('neg', 'pos'):
                    continue
                return self.starts_with_ident(part, idrules, seen)
        if k == 'choice':
            for alt in self.flatten_choice(e):
                r = self.starts_with_ident(alt, idrules, seen)
                if r:
                    return r
        return None

    @staticmethod
    def captured(lits, guard):
        """Literals w (identifier-shaped) for which some identifier w·c… (c an identifier character not
        excluded by the guard) is captured, with the free characters."""
        out = []
        free = IDC - guard
        for w in lits:
            if not w or w[0] not in ALPHA or any(ch not in IDC for ch in w):
                continue
            if free:
                out.append((w, ''.join(sorted(free))))
        return out

    def keyword_capture(self):
        """RF-G(i). Returns (positions analysed, findings). A finding is
        (kind, rule, competitor description, literal, free chars)."""
        idrules = set(self.ident_rules())
        findings = []
        positions = []
        # (b) negative look-aheads in front of an identifier role
        for name in self.order:
            parts = self.flatten_seq(self.G[name]['e'])
            for i, p in enumerate(parts):
                if p['k'] != 'neg':
                    continue
                role = None
                for q in parts[i + 1:]:
                    if q['k'] in ('neg', 'pos'):
                        continue
                    role = self.starts_with_ident(q, idrules)
                    break
                if not role:
                    continue
                desc = p['e'].get('v', p['e']['k'])
                kws = self.kw_parts(p['e'], idrules)
                positions.append(('lookahead', name, desc, role, sum(len(k[0]) for k in kws)))
                if not kws:
                    findings.append(('lookahead-opaque', name, desc, '?', ''))
                for lits, guard in kws:
                    for w, free in self.captured(lits, guard):
                        findings.append(('lookahead', name, desc, w, free))

        # (a) ordered choice: literal-only alternatives before an identifier-starting alternative
        def scan(name, e):
            k = e['k']
            if k == 'choice':
                alts = self.flatten_choice(e)
                for j, alt in enumerate(alts):
                    role = self.starts_with_ident(alt, idrules)
                    if role:
                        for prev in alts[:j]:
                            desc = prev.get('v', prev['k'])
                            kws = self.kw_parts(prev, idrules)
                            if kws:
                                positions.append(('choice', name, desc, role, sum(len(k[0]) for k in kws)))
                            for lits, guard in kws:
                                for w, free in self.captured(lits, guard):
                                    findings.append(('choice', name, desc, w, free))
                for alt in alts:
                    scan(name, alt)
            elif k == 'seq':
                scan(name, e['a'])
                scan(name, e['b'])
            elif k in ('opt', 'rep', 'rep1', 'pos', 'neg'):
                scan(name, e['e'])
        for name in self.order:
            scan(name, self.G[name]['e'])
        # dedupe findings (a choice inside a choice is scanned at both levels)
        positions = list(dict.fromkeys(positions))
        seen = set()
        uniq = []
        for f in findings:
            if f not in seen:
                seen.add(f)
                uniq.append(f)
        return positions, uniq

    def prefix_shadowing(self):
        """Inside one keyword-like choice under a guard, an earlier literal must not be a proper prefix of a later one."""
        idrules = set(self.ident_rules())
        out = []
        n = 0
        for name in self.order:
            for lits, guard in self.kw_parts(self.G[name]['e'], idrules):
                if len(lits) < 2:
                    continue
                n += 1
                for i, a in enumerate(lits):
                    for b in lits[i + 1:]:
                        if b != a and b.startswith(a):
                            nxt = b[len(a)]
                            # with a guard excluding nxt the earlier literal fails and PEG does not retry the choice
                            out.append((name, a, b, nxt in guard))
        return n, out

    def literals(self, name, seen=()):
        """All string literals reachable from a rule (for printer-token rules)."""
        out = set()

        def rec(e, seen):
            k = e['k']
            if k in ('str', 'insens'):
                out.add(e['v'])
            elif k == 'ident':
                if e['v'] in self.G and e['v'] not in seen:
                    rec(self.G[e['v']]['e'], seen | {e['v']})
            elif k in ('seq', 'choice'):
                rec(e['a'], seen)
                rec(e['b'], seen)
            elif k in ('opt', 'rep', 'rep1', 'pos', 'neg'):
                rec(e['e'], seen)
        rec(self.G[name]['e'], frozenset([name]))
        return out

    def digit_tokens(self):
        """Atomic rules that are built from single-character classes inside DIGIT ∪ {'_'} only (the number tokens of
        the language: array sizes, list bounds, decimal literals), with their verdict on the language
        D = 0 | [1-9][0-9]* of canonical decimal numerals: (rule, shape, D ⊆ L(rule), why-not)."""
        out = []
        for name in self.order:
            r = self.G[name]
            if r['ty'] not in ('atomic', 'compound'):
                continue
            parts = self.flatten_seq(r['e'])
            classes = []
            okshape = True
            for p in parts:
                inner = p['e'] if p['k'] in ('rep', 'rep1', 'opt') else p
                c = self.charclass(inner) if p['k'] in ('rep', 'rep1', 'opt', 'str', 'range', 'ident', 'choice') else None
                if c is None:
                    okshape = False
                    break
                classes.append((p['k'] if p['k'] in ('rep', 'rep1', 'opt') else 'one', c))
            if not okshape or not classes:
                continue
            allc = set().union(*[c for k, c in classes])
            if not allc & DIGIT or not allc <= DIGIT | {'_'}:
                continue
            shape = ' ~ '.join('%s[%s]' % (k, ''.join(sorted(c))) for k, c in classes)
            # decide D ⊆ L for the two shapes in use; anything else is reported as undecided (fail closed)
            if len(classes) == 1 and classes[0][0] == 'rep1':
                miss = DIGIT - classes[0][1]
                out.append((name, shape, not miss, 'digits %s not accepted' % ''.join(sorted(miss)) if miss else None))
            elif len(classes) == 2 and classes[0][0] == 'one' and classes[1][0] == 'rep':
                m1, m2 = DIGIT - classes[0][1], DIGIT - classes[1][1]
                why = []
                if m1:
                    why.append('first digit %s not accepted (one-digit numerals %s are rejected)' % (''.join(sorted(m1)), ', '.join(sorted(m1))))
                if m2:
                    why.append('later digits %s not accepted' % ''.join(sorted(m2)))
                out.append((name, shape, not why, '; '.join(why) or None))
            else:
                out.append((name, shape, False, 'shape not decided by the rule (expected C+ or C1 ~ C2*)'))
        return out

    # -- (c) identifier alternative tried before a keyword alternative
    def first_keywords(self, e, idrules, seen=()):
        """Identifier-shaped literals the expression can begin with (through rule references; look-aheads skipped)."""
        k = e['k']
        if k == 'str':
            return {e['v']} if e['v'] and e['v'][0] in ALPHA and all(ch in IDC for ch in e['v']) else set()
        if k == 'ident':
            if e['v'] in idrules or e['v'] not in self.G or e['v'] in seen:
                return set()
            return self.first_keywords(self.G[e['v']]['e'], idrules, seen + (e['v'],))
        if k == 'seq':
            for part in self.flatten_seq(e):
                if part['k'] in ('neg', 'pos'):
                    continue
                return self.first_keywords(part, idrules, seen)
            return set()
        if k == 'choice':
            out = set()
            for alt in self.flatten_choice(e):
                out |= self.first_keywords(alt, idrules, seen)
            return out
        return set()

    def ident_exclusions(self, e, idrules, seen=()):
        """For an expression that begins with an identifier role: (role, literals excluded by negative look-aheads
        in front of the identifier along that path); None when it does not begin with an identifier."""
        k = e['k']
        if k == 'ident':
            if e['v'] in idrules:
                return (e['v'], set())
            if e['v'] in self.G and e['v'] not in seen:
                return self.ident_exclusions(self.G[e['v']]['e'], idrules, seen + (e['v'],))
            return None
        if k == 'seq':
            excl = set()
            for part in self.flatten_seq(e):
                if part['k'] == 'neg':
                    for lits, guard in self.kw_parts(part['e'], idrules):
                        excl |= set(lits)
                    continue
                if part['k'] == 'pos':
                    continue
                r = self.ident_exclusions(part, idrules, seen)
                return (r[0], r[1] | excl) if r else None
            return None
        if k == 'choice':
            # every identifier-starting alternative has to exclude: report the weakest
            res = None
            for alt in self.flatten_choice(e):
                r = self.ident_exclusions(alt, idrules, seen)
                if r:
                    res = r if res is None else (res[0], res[1] & r[1])
            return res
        return None

    def keyword_order(self):
        """RF-G(iii). In an ordered choice, an alternative that begins with an identifier role and comes BEFORE an
        alternative beginning with the identifier-shaped literal w takes the text `w …` first whenever its continuation
        matches; the role has to exclude w by a negative look-ahead.  Returns (positions, findings) with
        finding = (rule, earlier alternative, role, later alternative, w)."""
        idrules = set(self.ident_rules())
        positions, findings = [], []

        def desc(a):
            return a.get('v', a['k'])

        def scan(name, e):
            k = e['k']
            if k == 'choice':
                alts = self.flatten_choice(e)
                for j, alt in enumerate(alts):
                    kws = self.first_keywords(alt, idrules)
                    if not kws:
                        continue
                    for prev in alts[:j]:
                        r = self.ident_exclusions(prev, idrules)
                        if not r:
                            continue
                        positions.append((name, desc(prev), r[0], desc(alt), len(kws)))
                        for w in sorted(kws - r[1]):
                            findings.append((name, desc(prev), r[0], desc(alt), w))
                for alt in alts:
                    scan(name, alt)
            elif k == 'seq':
                scan(name, e['a'])
                scan(name, e['b'])
            elif k in ('opt', 'rep', 'rep1', 'pos', 'neg'):
                scan(name, e['e'])
        for name in self.order:
            scan(name, self.G[name]['e'])
        return list(dict.fromkeys(positions)), list(dict.fromkeys(findings))

    # -- canonical form of the whole grammar (reviewed-grammar rule)
    def first_set(self, e, seen=()):
        """(set of possible first characters, nullable) of an expression; (None, _) when not computable."""
        k = e['k']
        if k == 'str':
            return ({e['v'][0]}, False) if e['v'] else (set(), True)
        if k == 'range':
            return (set(chr(c) for c in range(ord(e['a']), ord(e['b']) + 1)), False)
        if k == 'ident':
            if e['v'] in BUILTIN:
                return (set(BUILTIN[e['v']]), False)
            if e['v'] in ('SOI', 'EOI'):
                return (set(), True)
            if e['v'] in self.G and e['v'] not in seen:
                return self.first_set(self.G[e['v']]['e'], seen + (e['v'],))
            return (None, False)
        if k == 'seq':
            fa, na = self.first_set(e['a'], seen)
            if fa is None:
                return (None, False)
            if not na:
                return (fa, False)
            fb, nb = self.first_set(e['b'], seen)
            if fb is None:
                return (None, False)
            return (fa | fb, nb)
        if k == 'choice':
            fa, na = self.first_set(e['a'], seen)
            fb, nb = self.first_set(e['b'], seen)
            if fa is None or fb is None:
                return (None, False)
            return (fa | fb, na or nb)
        if k in ('opt', 'rep'):
            f, n = self.first_set(e['e'], seen)
            return (f, True)
        if k == 'rep1':
            return self.first_set(e['e'], seen)
        if k in ('neg', 'pos'):
            return (set(), True)
        return (None, False)

    def canonical(self):
        """{rule: canonical text}: silent rules inlined at their uses, choices and sequences flattened, alternatives of a
        choice sorted when their first-character sets are pairwise disjoint and none can match the empty string (PEG order
        is then irrelevant).  Two grammars with equal canonical forms produce the same parse trees."""
        silent = {n for n, r in self.G.items() if r['ty'] == 'silent' and n not in ('WHITESPACE', 'COMMENT')}

        def txt(e, seen):
            k = e['k']
            if k == 'str':
                return json_str(e['v'])
            if k == 'insens':
                return '^' + json_str(e['v'])
            if k == 'range':
                return "'%s'..'%s'" % (e['a'], e['b'])
            if k == 'ident':
                if e['v'] in silent and e['v'] not in seen:
                    return '(' + txt(self.G[e['v']]['e'], seen | {e['v']}) + ')'
                return e['v']
            if k == 'seq':
                return ' ~ '.join(par(x, seen, 'seq') for x in self.flatten_seq(e))
            if k == 'choice':
                alts = self.flatten_choice(e)
                # inline silent alternatives that are themselves choices
                flat = []
                for a in alts:
                    if a['k'] == 'ident' and a['v'] in silent and a['v'] not in seen and self.G[a['v']]['e']['k'] == 'choice':
                        flat += self.flatten_choice(self.G[a['v']]['e'])
                    else:
                        flat.append(a)
                parts = [par(x, seen, 'choice') for x in flat]
                fs = [self.first_set(x) for x in flat]
                disjoint = all(f is not None and f and not n for f, n in fs)
                if disjoint:
                    for i in range(len(fs)):
                        for j in range(i + 1, len(fs)):
                            if fs[i][0] & fs[j][0]:
                                disjoint = False
                if disjoint:
                    parts = sorted(parts)
                return ' | '.join(parts)
            if k in ('opt', 'rep', 'rep1', 'neg', 'pos'):
                sym = {'opt': '?', 'rep': '*', 'rep1': '+'}.get(k)
                inner = par(e['e'], seen, 'unary')
                return inner + sym if sym else ('!' if k == 'neg' else '&') + inner
            return '<%s>' % k

        def par(e, seen, ctx):
            t = txt(e, seen)
            if (e['k'] == 'choice') or (e['k'] == 'seq' and ctx in ('unary',)):
                return '(' + t + ')'
            return t

        return {n: '%s: %s' % (r['ty'], txt(r['e'], frozenset([n]))) for n, r in self.G.items() if n not in silent}


    def first_literals(self, e, seen=()):
        """String literals an expression can begin with (through rule references, look-aheads skipped)."""
        k = e['k']
        if k == 'str':
            return {e['v']}
        if k == 'ident':
            if e['v'] in self.G and e['v'] not in seen:
                return self.first_literals(self.G[e['v']]['e'], seen + (e['v'],))
            return set()
        if k == 'seq':
            for part in self.flatten_seq(e):
                if part['k'] in ('neg', 'pos'):
                    continue
                return self.first_literals(part, seen)
            return set()
        if k == 'choice':
            out = set()
            for alt in self.flatten_choice(e):
                out |= self.first_literals(alt, seen)
            return out
        return set()

    def first_literals_with_next(self, e, seen=()):
        """[(literal the expression can begin with, first-character set of what follows it in its sequence or None)]."""
        k = e['k']
        if k == 'str':
            return [(e['v'], None)]
        if k == 'ident':
            if e['v'] in self.G and e['v'] not in seen:
                return self.first_literals_with_next(self.G[e['v']]['e'], seen + (e['v'],))
            return []
        if k == 'seq':
            parts = [q for q in self.flatten_seq(e) if q['k'] not in ('neg', 'pos')]
            if not parts:
                return []
            head = self.first_literals_with_next(parts[0], seen)
            if len(parts) > 1:
                f, n = self.first_set(parts[1])
                return [(lit, after if after is not None else f) for lit, after in head]
            return head
        if k == 'choice':
            out = []
            for alt in self.flatten_choice(e):
                out += self.first_literals_with_next(alt, seen)
            return out
        return []

    def role_continuation(self, e, idrules, seen=()):
        """First-character set of what follows the identifier role an expression begins with (None: nothing follows /
        unknown)."""
        k = e['k']
        if k == 'ident' and e['v'] not in idrules and e['v'] in self.G and e['v'] not in seen:
            return self.role_continuation(self.G[e['v']]['e'], idrules, seen + (e['v'],))
        if k == 'seq':
            parts = [p for p in self.flatten_seq(e)]
            for i, part in enumerate(parts):
                if part['k'] in ('neg', 'pos'):
                    continue
                if self.starts_with_ident(part, idrules) is None:
                    return None
                inner = self.role_continuation(part, idrules, seen)
                if inner is not None:
                    return inner
                rest = [q for q in parts[i + 1:] if q['k'] not in ('neg', 'pos')]
                if not rest:
                    return None
                f, n = self.first_set(rest[0])
                return f
        return None

    def fused_capture(self):
        """RF-G(iv). An alternative that begins with a literal `w…` whose identifier-shaped prefix w is followed by a
        non-identifier character (`Left(`) comes before an alternative that begins with an identifier role followed by that
        character (`function_name ~ "(" …`): the text `w(…` meant for the later alternative is taken by the earlier one, so
        the role has to exclude w.  Returns (positions, findings = (rule, literal, later alternative, role, w))."""
        idrules = set(self.ident_rules())
        positions, findings = [], []

        def desc(a):
            return a.get('v', a['k'])

        def scan(name, e):
            k = e['k']
            if k == 'choice':
                alts = self.flatten_choice(e)
                for j, alt in enumerate(alts):
                    r = self.ident_exclusions(alt, idrules)
                    if not r:
                        continue
                    cont = self.role_continuation(alt, idrules)
                    if not cont:
                        continue
                    for prev in alts[:j]:
                        for lit, after in self.first_literals_with_next(prev):
                            m = 0
                            while m < len(lit) and lit[m] in IDC:
                                m += 1
                            w, rest = lit[:m], lit[m:]
                            nxt = {rest[0]} if rest else (after or set())
                            if not w or w[0] not in ALPHA or not (nxt & cont):
                                continue
                            positions.append((name, lit, desc(alt), r[0]))
                            if w not in r[1]:
                                findings.append((name, lit, desc(alt), r[0], w))
                for alt in alts:
                    scan(name, alt)
            elif k == 'seq':
                scan(name, e['a'])
                scan(name, e['b'])
            elif k in ('opt', 'rep', 'rep1', 'pos', 'neg'):
                scan(name, e['e'])
        for name in self.order:
            scan(name, self.G[name]['e'])
        return list(dict.fromkeys(positions)), list(dict.fromkeys(findings))
