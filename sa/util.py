"""Helpers over symbolic values and explored paths."""
import re

from .core import Explorer, sv, walk, short


def is_call(v, name=None):
    if not (isinstance(v, tuple) and v and v[0] == 'call'):
        return False
    if name is None:
        return True
    c = v[1]
    if isinstance(name, (tuple, list, set)):
        return any(c == n or c.endswith('::' + n) for n in name)
    return c == name or c.endswith('::' + name)


def calls_in(v, name=None):
    return [x for x in walk(v) if is_call(x, name)]


def contains(v, sub):
    return any(x == sub for x in walk(v))


def params_in(v):
    return {x[2] for x in walk(v) if x[0] == 'param'}


def has_param(v, name):
    return name in params_in(v)


def fields_in(v):
    return {x[2] for x in walk(v) if x[0] == 'field'}


def field_of_param(v, param, field):
    """v contains `param.field` (through derefs)."""
    for x in walk(v):
        if x[0] == 'field' and x[2] == field and has_param(x[1], param):
            return True
    return False


def strip_try(v):
    while isinstance(v, tuple) and v and v[0] in ('try',):
        v = v[1]
    return v


def ret_kind(v):
    """Classify a returned Result-like value: 'ok' | 'err' | 'residual' | 'other'."""
    if not isinstance(v, tuple):
        return 'other'
    if v[0] == 'agg' and v[1].endswith('Result::Ok'):
        return 'ok'
    if v[0] == 'agg' and v[1].endswith('Result::Err'):
        return 'err'
    if v[0] == 'residual':
        return 'residual'
    return 'other'


def err_variants(v):
    out = []
    for x in walk(v):
        if x[0] == 'agg' and 'error::Error::' in x[1]:
            out.append(x[1].split('::')[-1])
        if x[0] == 'fn' and re.search(r'error::Error::\w+$', x[1]):
            out.append(x[1].split('::')[-1])
    return out


def explore(ctx, fn, **kw):
    ctx.saw(fn)
    kw.setdefault('facts', ctx.facts())
    res = Explorer(fn, **kw).run()
    ctx.analysed['paths'] += len(res)
    return res


def deep_calls(fx, fn, depth=3, _seen=None):
    """Call sites of fn and, transitively, of the private helpers it calls that did not exist in the reviewed tree (an
    extracted helper belongs to its caller: a required call may have moved into it, a forbidden one may hide in it)."""
    seen = _seen if _seen is not None else {fn.path}
    out = list(fn.calls())
    known = (getattr(fx, 'reviewed_fns', None) or {}).get(fn.crate)
    if known is None or depth <= 0:
        return out
    for bid, c, t in list(out):
        d = t['f'].get('def') if t['f'].get('k') == 'const' else None
        pf = fx.crates[fn.crate].get(d) if d else None
        if pf is None or pf.path in known or pf.path in seen or pf.macro or '{closure' in pf.path:
            continue
        seen.add(pf.path)
        out += deep_calls(fx, pf, depth - 1, seen)
        for cl in fx.find('^' + re.escape(pf.path) + r'::\{closure#\d+\}$', fn.crate):
            out += list(cl.calls())
    return out


def cond_str(conds):
    return ' & '.join('%s=%s' % (sv(w), l) for w, l in conds)


def event_calls(path, name=None):
    return [e for e in path.events if e[0] == 'call' and (name is None or e[1] == name or e[1].endswith('::' + name))]


def try_cond_of(path, call_name):
    """Label (Continue/Break) of the `?` applied to a value containing a call of call_name, or None."""
    for w, l in path.conds:
        if isinstance(w, tuple) and w[0] == 'try' and calls_in(w, call_name):
            return l
    return None
