#!/opt/veriftools/pyvenv/bin/python
import json, jsonschema, glob, sys
jsonschema.validate(json.load(open('/verif/MANIFEST.json')), json.load(open('/root/.vp/MANIFEST.schema.json')))
es = json.load(open('/root/.vp/EVIDENCE.schema.json'))
for f in sorted(glob.glob('/verif/evidence/C*.json')):
    jsonschema.validate(json.load(open(f)), es)
print('manifest + %d evidence files valid' % len(glob.glob('/verif/evidence/C*.json')))
