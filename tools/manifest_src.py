TB = 'Trusted base: rustc nightly MIR and trait resolution; simplicity-lang 0.4.0 (combinator semantics, finalizers, Converter protocol), pest 2.7.3. '
CHECKS = [
 {'property_id': 'C05',
  'text': 'Static must-pass-through, who-may-call and exact-path-structure rules on the MIR of satisfy_with_env, WitnessValues::is_consistent, to_witness_node, insert_witness and the witness arm of code generation. Decides the structural necessary conditions (type check gates population, nominal comparison, skip only undeclared names, delivery by the node\'s own name); does not decide run-time bit equality.',
  'note': TB + 'Assumes Converter::convert_witness is called once per witness node with that node\'s name.',
  'technique': 'static analysis: dominance/must-pass-through + path-structure rules over rustc MIR (custom rustc_private driver)'},
 {'property_id': 'C02',
  'text': 'Static path rule on satisfy_with_env (every success path must finalize with a value-pruning finalizer; the env=None arm does not: known finding D5), structure-preservation of the two node converters (only convert_witness/disconnect/data overridden), commit() reads the same field and takes no witness input, frozen who-may-create of inference contexts. Decides simfony-side necessary conditions of CMR equality and decodability; decoder and Bit Machine are trusted.',
  'note': TB + 'API summaries of finalize_pruned/finalize_unpruned/Node::convert were read in simplicity-lang 0.4.0 sources.',
  'technique': 'static analysis: path-sensitive must-pass-through, who-may-call and impl-inventory rules over rustc MIR'},
 {'property_id': 'C17',
  'text': 'Static keyword-capture analysis of the PEG grammar AST (look-aheads and ordered-choice commitment in front of every identifier role; guard classes must exclude every identifier character), identifier-shape check, plus MIR rules: names are built from the matched text unchanged, raw-string access to names only at frozen sites, parentheses transparent in analysis and code generation. Decides acceptance-side opacity for all identifiers; run-time invariance under renaming is argued, not mechanised.',
  'note': TB + 'PEG semantics of pest (ordered choice commits, look-ahead consumes nothing).',
  'technique': 'static analysis: PEG look-ahead/ordered-choice capture analysis on the pest_meta AST + who-may-call rules over MIR'},
 {'property_id': 'C18',
  'text': 'Static path rules on satisfy_with_env: Some(env) => finalize_pruned(populated node, that env), None => finalize_unpruned; finalizer Result propagated by `?`; returned program is the finalizer output; witness type check gates both arms. Necessary conditions only: the pruning behaviour itself lives in simplicity-lang and is not decided.',
  'note': TB,
  'technique': 'static analysis: path-sensitive argument-provenance and must-pass-through rules over rustc MIR'},
]
NOT_APPLICABLE = []
NOTES = 'All checks are static: they read /repo through a rustc_private MIR-facts driver and the pest grammar AST; nothing executes simfony code. See DESIGN.md.'
