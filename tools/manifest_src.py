TB = 'Trusted base: rustc nightly MIR and trait resolution; simplicity-lang 0.4.0 (combinator semantics, finalizers, Converter protocol), pest 2.7.3. '
CHECKS = [
 {'property_id': 'C05',
  'text': 'Static must-pass-through, who-may-call and exact-path-structure rules on the MIR of satisfy_with_env, WitnessValues::is_consistent, to_witness_node, insert_witness and the witness arm of code generation. Decides the structural necessary conditions (type check gates population, nominal comparison, skip only undeclared names, delivery by the node\'s own name); does not decide run-time bit equality.',
  'note': TB + 'Assumes Converter::convert_witness is called once per witness node with that node\'s name.',
  'technique': 'static analysis: dominance/must-pass-through + path-structure rules over rustc MIR (custom rustc_private driver)'},
]
NOT_APPLICABLE = []
NOTES = 'All checks are static: they read /repo through a rustc_private MIR-facts driver and the pest grammar AST; nothing executes simfony code. See DESIGN.md.'
