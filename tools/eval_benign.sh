#!/bin/bash
# tools/eval_benign.sh <dir-with-benign_*.diff> [ids...]: run all quick checks against each behaviour-preserving diff
D=$1; shift; IDS=${@:-01 02 03 04 05 06 07 08 09 10 11 12}
for k in $IDS; do echo "$(basename $D)-$k $(/verif/tools/eval_seed.py $D/benign_$k.diff 2>&1 | tail -1)"; done
