#!/usr/bin/env python3
"""tools/save_seed.py <id> <worktree> <property> "<what>" "<needs>" : store a confirmed seeded change under /verif/seeded/<id>/ and record which checks catch it."""
import json, os, shutil, subprocess, sys
sid, wt, prop, what, needs = sys.argv[1:6]
also = sys.argv[6].split(',') if len(sys.argv) > 6 and sys.argv[6] else []
d = os.path.join('/verif/seeded', sid)
os.makedirs(d, exist_ok=True)
shutil.copyfile(os.path.join(wt, 'mutant.diff'), os.path.join(d, 'patch.diff'))
for f in ('tests/demo.rs', 'NOTES.md'):
    if os.path.exists(os.path.join(wt, f)):
        shutil.copyfile(os.path.join(wt, f), os.path.join(d, os.path.basename(f)))
for f in os.listdir(wt):
    if f.startswith('demo') and f not in ('demo.rs',):
        src = os.path.join(wt, f)
        if os.path.isfile(src):
            shutil.copyfile(src, os.path.join(d, f))
r = subprocess.run(['/verif/tools/eval_seed.py', os.path.join(d, 'patch.diff')], capture_output=True, text=True)
fired = json.loads(r.stdout.strip().splitlines()[-1]) if r.stdout.strip() else {}
confirm = ''
log = '/tmp/wt/confirm_%s.log' % os.path.basename(wt)
if os.path.exists(log):
    confirm = open(log).read()
meta = {
    'id': sid, 'breaks_property': prop, 'also_breaks': also, 'what': what, 'needs_to_manifest': needs,
    'origin': 'written by an independent sub-agent from the property text alone (no access to /verif)',
    'confirmed': {'how': 'tools/confirm_seed.sh in the scratch worktree: source diff == patch, cargo build --offline, existing suite (lib, codegen, doc) with the change, demo with and without the change', 'log': confirm.strip().splitlines()},
    'checks_that_fire': fired,
    'caught_by_own_property_check': prop in fired,
    'ran': ['git -C /repo apply patch.diff', './check <each of C01..C20> quick', 'git -C /repo checkout -- .'],
}
json.dump(meta, open(os.path.join(d, 'meta.json'), 'w'), indent=1)
print(sid, prop, 'fires:', fired)
