#!/usr/bin/env python3
"""Re-run all checks against every stored behaviour-preserving change and refresh `checks_that_fire` in its meta.json."""
import json, os, subprocess
root = '/verif/benign'
for sid in sorted(os.listdir(root)):
    d = os.path.join(root, sid)
    mp = os.path.join(d, 'meta.json')
    if not os.path.exists(mp):
        continue
    r = subprocess.run(['/verif/tools/eval_seed.py', os.path.join(d, 'patch.diff')], capture_output=True, text=True)
    fired = json.loads(r.stdout.strip().splitlines()[-1]) if r.stdout.strip() else {'?': [r.stderr[-200:]]}
    m = json.load(open(mp))
    m['checks_that_fire'] = fired
    json.dump(m, open(mp, 'w'), indent=1)
    print('%-34s %s' % (sid, fired))
