#!/usr/bin/env python3
"""tools/eval_seed.py <patch.diff> [props...]: apply a seeded change to /repo, run the quick checks, report which fire, undo."""
import subprocess, sys, json, os
patch = os.path.abspath(sys.argv[1])
props = sys.argv[2:] or ['C%02d' % i for i in range(1, 21)]
assert subprocess.run(['git', '-C', '/repo', 'status', '--porcelain', '--untracked-files=no'], capture_output=True, text=True).stdout.strip() == '', '/repo not clean'
r = subprocess.run(['git', '-C', '/repo', 'apply', patch], capture_output=True, text=True)
if r.returncode != 0:
    print('APPLY FAILED', r.stderr); sys.exit(2)
fired = {}
try:
    import re as _re
    from concurrent.futures import ThreadPoolExecutor
    subprocess.run(['python3', '-m', 'sa.extract', 'default', 'serde'], cwd='/verif', stdout=subprocess.DEVNULL, stderr=subprocess.DEVNULL)

    def one(pid):
        return pid, subprocess.run(['/verif/check', pid, 'quick'], stdout=subprocess.PIPE, stderr=subprocess.STDOUT, text=True)
    with ThreadPoolExecutor(10) as ex:
        results = list(ex.map(one, props))
    for pid, r in results:
        if r.returncode != 0:
            rules = sorted({l.split()[1] for l in r.stdout.splitlines() if l.startswith('  rule ') and _re.search(r'failed=[1-9]', l)})
            rules = [x for x in rules if (pid, x) not in {('C02', 'R02.1'), ('C06', 'R06.2'), ('C06', 'R06.3')} or 'VIOLATION' in r.stdout and any(('rule %s at' % x) in l for l in r.stdout.splitlines())]
            if rules:
                fired[pid] = rules
finally:
    subprocess.run(['git', '-C', '/repo', 'checkout', '--', '.'])
print(json.dumps(fired))
