#!/usr/bin/env python3
"""Regenerate MANIFEST.json from tools/manifest_src.py (single source of truth for claimed checks)."""
import json, os, sys
sys.path.insert(0, os.path.dirname(os.path.dirname(os.path.abspath(__file__))))
from tools.manifest_src import CHECKS, NOT_APPLICABLE, NOTES
m = {
    'version': 1,
    'setup_cmd': './setup.sh',
    'hooks': {
        'guard': 'none (no hooks: all checks analyse the unmodified sources)',
        'enable': 'not needed: checks run `cargo +nightly check` on /repo with the simfacts rustc driver as RUSTC_WORKSPACE_WRAPPER; no source changes are required',
        'baseline_off_cmd': 'cd /repo && cargo test --workspace --no-fail-fast --offline',
        'source_commits': [],
        'add_only': True,
    },
    'engines': [
        {'name': 'simfacts', 'path': 'engines/simfacts', 'serves_properties': sorted(c['property_id'] for c in CHECKS), 'kind_free_text': 'rustc_private driver dumping resolved MIR facts (callees resolved by Instance::try_resolve) of /repo as JSON'},
        {'name': 'pestdump', 'path': 'engines/pestdump', 'serves_properties': ['C06', 'C11', 'C15', 'C16', 'C17'], 'kind_free_text': 'pest_meta 2.7.3 dump of src/minimal.pest as a rule AST'},
        {'name': 'sa', 'path': 'sa', 'serves_properties': sorted(c['property_id'] for c in CHECKS), 'kind_free_text': 'Python rule engine: call graph, CFG/dominators, path-forking symbolic MIR walk, Simplicity term reconstruction and symbolic evaluation, guard inventory, grammar analyses'},
    ],
    'checks': [],
    'notes': NOTES,
    'not_applicable': NOT_APPLICABLE,
}
for c in CHECKS:
    pid = c['property_id']
    m['checks'].append({
        'property_id': pid,
        'quick_cmd': './check %s quick' % pid,
        'thorough_cmd': './check %s thorough' % pid,
        'evidence_file': 'evidence/%s.json' % pid,
        'replay_cmd_template': 'cat {path}',
        'engine': 'sa',
        'level_claimed': {'category': 'other', 'text': c['text'], 'design_ref': c.get('design_ref', 'DESIGN.md section 3, ' + pid)},
        'level_note': c['note'],
        'technique': c['technique'],
    })
claimed = {c['property_id'] for c in CHECKS} | {n['property_id'] for n in NOT_APPLICABLE}
for line in open(os.path.join(os.path.dirname(os.path.dirname(os.path.abspath(__file__))), 'properties.jsonl')):
    pid = json.loads(line)['id']
    if pid not in claimed:
        m['not_applicable'].append({'property_id': pid, 'reason': 'no check registered yet in this round (rules designed in DESIGN.md section 3; not claimed until the check exists and is silent on the unchanged tree)'})
out = os.path.join(os.path.dirname(os.path.dirname(os.path.abspath(__file__))), 'MANIFEST.json')
json.dump(m, open(out, 'w'), indent=1)
print('wrote', out, len(m['checks']), 'checks')
