#!/usr/bin/env python3
"""Freeze the canonical form of the reviewed grammar (tables/grammar.json); see Grammar.canonical()."""
import json, os, sys
sys.path.insert(0, os.path.dirname(os.path.dirname(os.path.abspath(__file__))))
from sa.core import Facts
from sa.grammar import Grammar
g = Grammar(Facts('default').grammar)
c = g.canonical()
json.dump({'comment': 'canonical form of src/minimal.pest at review time (silent rules inlined, order-irrelevant alternatives sorted)', 'rules': c},
          open(os.path.join(os.path.dirname(__file__), '..', 'tables', 'grammar.json'), 'w'), indent=1, sort_keys=True, ensure_ascii=False)
print(len(c), 'rules')
