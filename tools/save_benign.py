#!/usr/bin/env python3
"""tools/save_benign.py <id> <diff> "<what>": store a behaviour-preserving change with the checks that alarm on it."""
import json, os, shutil, subprocess, sys
sid, diff, what = sys.argv[1:4]
d = os.path.join('/verif/benign', sid)
os.makedirs(d, exist_ok=True)
shutil.copyfile(diff, os.path.join(d, 'patch.diff'))
r = subprocess.run(['/verif/tools/eval_seed.py', os.path.join(d, 'patch.diff')], capture_output=True, text=True)
fired = json.loads(r.stdout.strip().splitlines()[-1]) if r.stdout.strip() else {'?': [r.stderr[-200:]]}
json.dump({'id': sid, 'what': what, 'origin': 'written by a sub-agent asked for realistic behaviour-preserving refactors (builds, pinned suite passes); not a property violation',
           'checks_that_fire': fired, 'ran': ['git -C /repo apply patch.diff', './check <each of C01..C20> quick', 'git -C /repo checkout -- .']}, open(os.path.join(d, 'meta.json'), 'w'), indent=1)
print(sid, fired)
