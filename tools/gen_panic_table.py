#!/usr/bin/env python3
"""Writes tables/panic_sites.json: the reviewed residue (G3..G6) of panic-capable sites that the shape engine (G1/G2)
does not discharge. Every site is matched by exactly one classifier below; each classifier was written after reading the
function and carries the reason why no text input reaches the panic. Sites matching no classifier are NOT written,
so they are reported until triaged."""
import json, os, re, sys
sys.path.insert(0, os.path.dirname(os.path.dirname(os.path.abspath(__file__))))
from sa.core import Facts
from sa import panics
from sa.pestshape import ShapeSim

FOLD = 'G3 post-order stack fold over a TreeLike: each node pushes exactly one item after popping exactly the items of its children (arity given by the matching as_node arm), so pop/split_off/len-size never underflow and one item remains'
TYPED = 'G4 typed-value invariant: the value/expression carries the type it was constructed or analysed at, so the deconstructor for its own variant returns Some'
RULES = [
 # ---- G3 stack folds
 (r'^(<types::AliasedType as parse::PestParse>::parse|<pattern::Pattern as parse::PestParse>::parse|<pattern::BasePattern as std::convert::From<&pattern::Pattern>>::from|<types::StructuralType as std::convert::From<&types::ResolvedType>>::from|types::AliasedType::resolve|array::BTreeSlice::<\'_, A>::fold|array::Partition::<\'_, A>::fold)$', r'^(unwrap\|unwrap|index\|(split_off|index)|assert\|(Overflow:Sub|BoundsCheck)|panic\|(assert_failed|panic))', 'G3', FOLD),
 (r'^<types::AliasedType as parse::PestParse>::parse::Item::unwrap_(type|size|bound)$', r'^panic', 'G3', 'G3 item kind pushed by the arm of the child rule: array_size pushes Size, list_bound pushes Bound, every other node pushes Type; the grammar fixes the child order of array_type (ty, array_size) and list_type (ty, list_bound)'),
 (r'^(<value::StructuralValue as std::convert::From<&value::Value>>::from|value::Value::from_const_expr)$', r'^(unwrap\|unwrap|index\|split_off|assert\|Overflow:Sub|panic\|assert_failed)', 'G3', FOLD),
 (r'^(<value::StructuralValue as std::convert::From<&value::Value>>::from|value::Value::from_const_expr)$', r'^unwrap\|expect', 'G4', TYPED),
 (r'^<value::StructuralValue as std::convert::From<&value::Value>>::from$', r'^panic\|panic', 'G4', 'G4 debug_assert!(elements.len() < bound): Value::list is the only constructor of ValueInner::List and asserts it'),
 (r'^pattern::BasePattern::translate$', r'^(unwrap\|unwrap|panic\|assert_failed)', 'G3', 'G3 task stack of translate: MakeTake/MakeDrop/MakePair are pushed below the Translate tasks that produce their operands, one output per Translate'),
 (r'^pattern::BasePattern::translate$', r'^panic\|panic_fmt', 'G6', 'unreachable!: `to` is a product and covers() held, so `from` contains its identifiers and must be a product; `to` without ignore asserted at entry'),
 (r'^pattern::BasePattern::translate$', r'^panic\|panic$', 'G6', 'assert!(!to.contains_ignore()) / debug_assert!(from.covers(to)): the only caller (Scope::get) passes BasePattern::Identifier targets'),
 (r'^pattern::BasePattern::get$', r'^panic\|assert_failed', 'G6', 'debug_assert_eq!(n, 2): a Product node of the verbose pre-order iterator is yielded with n_children_yielded in {0,1,2}'),
 # ---- G5 guarded conversions
 (r'^value::Value::parse_hexadecimal$', r'^unwrap\|expect', 'G5', 'G5 from_hex(s): s consists of ASCII_HEX_DIGIT only (grammar hex_literal minus `_`), even and non-empty length checked above; UIntValue::try_from(bytes): len = byte_width of a uN with N >= 8 (len 0 rejected by the non-empty test), all of 1,2,4,8,16,32 accepted'),
 (r'^value::Value::parse_hexadecimal$', r'^panic\|panic', 'G5', 'unreachable!: second match on the same ty.as_inner() whose non-UInt/non-Array cases returned Err above'),
 (r'^<value::UIntValue as std::convert::TryFrom<&\[u8\]>>::try_from$', r'^(unwrap\|unwrap|assert\|BoundsCheck)', 'G5', 'G5 each arm converts a slice whose length was just matched (1,2,4,8,16,32) into the array of that length'),
 (r'^value::UIntValue::parse_binary$', r'.*', 'G5', 'G5 bit_len is a power of two naming an integer type (both ok_or guards passed): byte_len = ceil(bit_len/8) >= 1, padded_bits has exactly 8*byte_len items (padding = 8 - bit_len for sub-byte widths), so next().unwrap(), bytes[0] and try_from(bytes) (len in 1,2,4,8,16,32) hold; the debug_asserts bound a sub-byte value by its padding; byte << 1 shifts by a constant'),
 (r'^<num::U256 as std::convert::From<u(8|16|32|64|128)>>::from$', r'.*', 'G6', 'constant ranges inside a 32-byte array'),
 (r'^(<str::JetName as parse::PestParse>::parse|<str::Binary as parse::PestParse>::parse|<str::Hexadecimal as parse::PestParse>::parse)$', r'^unwrap\|unwrap', 'G5', 'G5 strip_prefix of the literal prefix the grammar rule starts with (jet:: / 0b / 0x), checked by rule R06.4'),
 (r'^<types::UIntType as parse::PestParse>::parse$', r'^panic', 'G5', 'G5 string match covers the literal set of grammar rule unsigned_type (checked by rule R07.4 table agreement)'),
 (r'^<A as parse::ParseFromStr>::parse_from_str$', r'^unwrap\|unwrap', 'API', 'pest: a successful parse(rule, s) yields exactly one top-level pair'),
 # ---- analysis preconditions
 (r'^<ast::(Assignment|Function|Item|Module|ModuleAssignment|ModuleItem|Statement) as ast::AbstractSyntaxTree>::analyze$', r'^panic\|(panic_fmt|panic)$', 'G6', 'assert!(ty.is_unit()) / assert!(scope.is_topmost()): every caller passes ResolvedType::unit() (Program::analyze, analyze_named_module, Item/ModuleItem/Statement/Module::analyze, block closure) and items are analysed only from the topmost scope (pairing rule R10.1)'),
 (r'^ast::(Program::analyze|analyze_named_module)$', r'^panic\|panic', 'G6', 'debug_assert!(scope.is_topmost()) after all items: push/pop pairing R10.1'),
 (r'^ast::Scope::(push_main_scope|pop_main_scope)$', r'^panic', 'G6', 'is_main/topmost assertions: push_main_scope/pop_main_scope are called once each, in Function::analyze, from the topmost scope (R10.1, R05.5m)'),
 (r'^(ast::Scope::(pop_scope|insert_variable)|compile::Scope::(pop_scope|insert|get_input_pattern)|named::SelectorBuilder::<P>::pop)$', r'^unwrap\|expect', 'G6', 'non-empty stack: pairing rule R10.1 (every pop/insert happens after a push; the compile scope starts with one scope holding one pattern); SelectorBuilder::pop follows an o()/i() in BasePattern::get'),
 (r'^<ast::Call as ast::AbstractSyntaxTree>::analyze$', r'^unwrap\|expect', 'G6', 'params().first()/get(1) of a function admitted by CallName::analyze as foldable (len == 2) / loopable (len == 3)'),
 (r'^<ast::CallName as ast::AbstractSyntaxTree>::analyze$', r'^(unwrap\|unwrap|assert\|BoundsCheck)', 'G6', 'params()[1], first(), get(2) after the len() == 2 / len() == 3 tests on the same path'),
 (r'^parse::Match::scrutinee_type$', r'^panic', 'G6', 'unreachable!: Match::parse normalises arms to (Left,Right)/(None,Some)/(False,True) or returns IncompatibleMatchArms (R01.8)'),
 # ---- code generation invariants (also R03.3)
 (r'^compile::Scope::get_argument$', r'^unwrap\|expect', 'G6', 'Arguments::is_consistent(parameters) dominates compile in instantiate (R12.2) and every Parameter node was recorded by insert_parameter (R12.1); the checked arguments reach every compile scope (R12.3a)'),
 (r'^compile::<impl ast::SingleExpression>::compile$', r'^unwrap\|unwrap', 'G4', 'as_list() of an expression analysed in the List arm (its type was deconstructed with as_list)'),
 (r'^compile::compile_blk$', r'^assert\|(BoundsCheck|Overflow:Add)', 'G6', 'index < stmts.len() tested at entry; index + 1 <= len'),
 (r'^compile::for_while$', r'.*', 'G6', 'bit_width in {1,2,4,8,16} (guard R09.3): 2*bit_width - 1 >= 1, i - 1 >= 1, the copy ranges lie inside the stack of that size (debug_assert_eq on equal halves)'),
 (r'^named::(CoreExt::(unit_scribe|assertl_take|assertl_drop|assertr_take|case_true_false)|PairBuilder::<P>::pair)$', r'^unwrap\|unwrap', 'API', 'documented always-type-check combinations (take/drop leave one side free; unit;scribe; PairBuilder invariant: source types are products of variables, enforced by the private tuple field W2)'),
 (r'^named::to_witness_node$', r'^unwrap\|unwrap', 'API', 'Populator never returns Err (Error = (), all three methods return Ok)'),
 (r'^CompiledProgram::commit$', r'^unwrap\|expect', 'ASSUMED', 'program of type 1 -> 1: main is compiled in the unit environment with unit result type (R01.1 program row); rests on type inference in simplicity-lang'),
 (r'^array::Partition::<\'a, A>::from_slice$', r'^panic', 'G6', 'assert!(len < bound): callers pass lists admitted by the bound guard (analysis List arm, Value::list assert, StructuralType::list builds bound - 1 elements; as_node recursion keeps len < smaller bound)'),
 (r'^array::Partition::<\'_, A>::is_complete$', r'^assert\|Overflow:Add', 'G6', 'slice.len() + 1 with len < bound'),
 (r'^<(value::StructuralValue|value::Value) as value::ValueConstructible>::(array|list)$', r'^panic', 'G4', 'element-type / length assertions: callers pass elements analysed at the element type and fewer than bound (guards of the analysis List/Array arms)'),
 (r'^<value::StructuralValue as value::ValueConstructible>::list$', r'^panic\|panic$', 'G4', 'debug_assert!(ret.is_of_type(list type)): layout agreement of value and type partition (R07.2)'),
 (r'^<types::StructuralType as types::TypeConstructible>::list(::\{closure#0\})?$', r'.*', 'G6', 'bound >= 2 (NonZeroPow2Usize::TWO is the minimum list bound): bound - 1 >= 1; the partition of bound - 1 elements is complete so every block is full (fold(..).unwrap() on a non-empty block)'),
 (r'^jet::list$', r'^unwrap\|unwrap', 'G6', 'constant power-of-two bounds in the jet table'),
 (r'^types::BuiltinAlias::resolve$', r'^unwrap\|unwrap', 'G6', 'NonZeroPow2Usize::new(64) constant'),
 (r'^types::UIntType::(bit_width|byte_width)$', r'.*', 'G6', 'Pow2Usize::new_unchecked of the constants 1..256; division by the constant 8'),
 (r'^num::(NonZeroPow2Usize::mul2|Pow2Usize::mul2|Pow2Usize::new_unchecked)$', r'.*', 'G6', 'doubling of a power of two bounded by the list bound / bit width loop conditions (i < bound, i <= bit_width <= 16); new_unchecked is called with constants'),
 (r'^debug::CallTracker::track_call$', r'^assert\|Overflow:Add', 'G6', 'u32 counter of tracked calls; a source text has fewer than 2^32 call expressions'),
 # ---- error rendering (C20 R20.3)
 (r'^error::(Position::new|Span::new)$', r'^panic', 'API', 'pest line/col are 1-based and start <= end; From<&str> uses max(1, ..); pest error positions likewise'),
 (r'^<error::Span as std::convert::From<&str>>::from$', r'^panic', 'G6', 'debug_asserts restating start (1,1) <= end with end components max(1, ..)'),
 (r'^error::Span::to_slice$', r'.*', 'G6', 'char_indices offsets are char boundaries; start is met no later than end because Span::new orders them; counters bounded by the file length'),
 (r'^<error::RichError as std::fmt::Display>::fmt$', r'^assert\|Overflow', 'G6', 'start.line >= 1; end.line >= start.line and, on one line, end.col >= start.col (Span::new, R20.1 keeps unchecked literals out); line numbers bounded by the file length'),
 (r'^<error::RichError as std::convert::From<pest::error::Error<parse::Rule>>>::from$', r'^assert\|Overflow:Add', 'G6', 'col + 1 of a column inside the input'),
 (r'^witness::WitnessValues::is_consistent$', r'^index\|index', 'G6', 'self.0[name] with name taken from self.0.keys()'),
 (r'^compile::<impl ast::Match>::compile$', r'^index', 'G6', 'not an index operation'),
]

def main():
    out = {}
    un = []
    for cfg in ('default', 'serde'):
        fx = Facts(cfg)
        ents, missing = panics.entries(fx, cfg)
        reach = fx.reachable(ents)
        sim = ShapeSim(fx).run()
        for p in sorted(reach):
            fn = fx.F[p]
            if fn.macro or '::promoted[' in p or fn.kind in ('Const', 'AssocConst'):
                continue
            st = sim.results.get(p, {})
            for key, bid, kind, det, line, mac in panics.keyed_sites(fn):
                if st.get(bid) in ('safe', 'infeasible'):
                    continue
                hit = None
                for fr, kr, cat, why in RULES:
                    if re.search(fr, p) and re.search(kr, '%s|%s' % (kind, det)):
                        hit = (cat, why)
                        break
                if hit:
                    out[key] = {'category': hit[0], 'why': hit[1]}
                elif key not in un:
                    un.append(key)
                    print('UNCLASSIFIED', key, 'line', line, mac)
    path = os.path.join(os.path.dirname(os.path.dirname(os.path.abspath(__file__))), 'tables', 'panic_sites.json')
    json.dump({'comment': 'reviewed residue of panic-capable sites; generated by tools/gen_panic_table.py (classifiers carry the reasons)', 'sites': out}, open(path, 'w'), indent=1, ensure_ascii=False)
    print(len(out), 'sites written;', len(un), 'unclassified')
main()
