#!/usr/bin/env python3
"""tools/save_seed2.py <id> <worktree> <a|b> <property> "<what>" "<needs>" [also]: store a confirmed round-3 seeded change."""
import json, os, shutil, subprocess, sys, re
sid, wt, x, prop, what, needs = sys.argv[1:7]
also = sys.argv[7].split(',') if len(sys.argv) > 7 and sys.argv[7] else []
d = os.path.join('/verif/seeded', sid)
os.makedirs(d, exist_ok=True)
shutil.copyfile(os.path.join(wt, 'mutant_%s.diff' % x), os.path.join(d, 'patch.diff'))
shutil.copyfile(os.path.join(wt, 'tests', 'demo_%s.rs' % x), os.path.join(d, 'demo.rs'))
if os.path.exists(os.path.join(wt, 'NOTES.md')):
    shutil.copyfile(os.path.join(wt, 'NOTES.md'), os.path.join(d, 'NOTES.md'))
r = subprocess.run(['/verif/tools/eval_seed.py', os.path.join(d, 'patch.diff')], capture_output=True, text=True)
fired = json.loads(r.stdout.strip().splitlines()[-1]) if r.stdout.strip() else {}
confirm = []
for logf in ('/tmp/wt/confirm3.log', '/tmp/wt/confirm4.log', '/tmp/wt/confirm5.log', '/tmp/wt/confirm6.log', '/tmp/wt/confirm7.log', '/tmp/wt/confirm8.log', '/tmp/wt/confirm9.log'):
    if os.path.exists(logf):
        for part in open(logf).read().split('=== ')[1:]:
            if part.split('\n')[0].strip() == '%s %s' % (os.path.basename(wt), x):
                confirm = part.strip().splitlines()
meta = {
    'id': sid, 'breaks_property': prop, 'also_breaks': also, 'what': what, 'needs_to_manifest': needs,
    'origin': 'written by an independent sub-agent from the property text alone (no access to /verif); later rounds: two changes per property, earlier changes excluded',
    'confirmed': {'how': 'tools/confirm_seed2.sh in the scratch worktree: apply patch, cargo build --offline, existing suite (lib, codegen, doc) with the change, demo with and without the change', 'log': confirm},
    'checks_that_fire': fired,
    'caught_by_own_property_check': prop in fired,
    'ran': ['git -C /repo apply patch.diff', './check <each of C01..C20> quick', 'git -C /repo checkout -- .'],
}
json.dump(meta, open(os.path.join(d, 'meta.json'), 'w'), indent=1)
print(sid, prop, 'fires:', fired)
