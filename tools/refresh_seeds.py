#!/usr/bin/env python3
"""Re-run all checks against every seeded change and refresh `checks_that_fire` in its meta.json; print the matrix."""
import json, os, subprocess
root = '/verif/seeded'
for sid in sorted(os.listdir(root)):
    d = os.path.join(root, sid)
    mp = os.path.join(d, 'meta.json')
    if not os.path.exists(mp):
        continue
    r = subprocess.run(['/verif/tools/eval_seed.py', os.path.join(d, 'patch.diff')], capture_output=True, text=True)
    fired = json.loads(r.stdout.strip().splitlines()[-1])
    m = json.load(open(mp))
    m['checks_that_fire'] = fired
    m['caught_by_own_property_check'] = m['breaks_property'] in fired
    json.dump(m, open(mp, 'w'), indent=1)
    print('%-34s %-4s own=%s  %s' % (sid, m['breaks_property'], m['caught_by_own_property_check'], fired))
