#!/bin/bash
# tools/why.sh <diff> <prop> : apply a diff, run one check, print the first differing rows, undo
git -C /repo apply "$1" || exit 1
/verif/check $2 quick >/dev/null
python3 - "$2" <<'PY'
import json,glob,sys
for f in sorted(glob.glob('/verif/build/replay/%s-*.json' % sys.argv[1]))[:7]:
    d=json.load(open(f)); print(d['key']); print((d.get('detail') or '')[:1000]); print()
PY
git -C /repo checkout -- .
