#!/usr/bin/env python3
"""Freeze the parameter names of every function at review time (tables/params.json).

The rules and the reviewed tables render symbolic values with the parameter names of the reviewed tree.  At run time
the fact loader names parameters positionally from this table, so that renaming a parameter in /repo (behaviour
unchanged) does not change any rendered condition, while a changed arity falls back to the current names."""
import json, os, sys
sys.path.insert(0, os.path.dirname(os.path.dirname(os.path.abspath(__file__))))
os.environ['VERIF_NO_PARAM_TABLE'] = '1'
from sa.core import Facts
out = {}
for config in ('default', 'serde'):
    fx = Facts(config)
    for crate, fns in fx.crates.items():
        for path, fn in fns.items():
            if fn.macro:
                continue
            names = [fn.names.get(i) for i in range(1, fn.argc + 1)]
            out.setdefault(crate, {}).setdefault(path, names)
json.dump({'comment': 'parameter names of the reviewed tree, by position (tools/gen_params.py)', 'params': out}, open(os.path.join(os.path.dirname(__file__), '..', 'tables', 'params.json'), 'w'), indent=0, sort_keys=True)
print(sum(len(v) for v in out.values()), 'functions')
