#!/bin/bash
# tools/run_all.sh [tier]: run all 20 checks in parallel against $VERIF_REPO (default /repo); print one line per failing check
cd /verif; T=${1:-quick}
python3 -m sa.extract default serde >/dev/null 2>&1
for i in $(seq -w 1 20); do ( ./check C$i $T > build/last-C$i.log 2>&1; echo "C$i rc=$?" ) & done | sort | tr '\n' ' '; wait; echo
grep -h "VIOLATION\|failed=[1-9]" build/last-C*.log | cut -c1-160 | head -40
