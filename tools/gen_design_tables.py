#!/usr/bin/env python3
"""Regenerate the generated parts of DESIGN.md (between <!-- BEGIN x --> / <!-- END x --> markers):
rules  – rule ids with their one-line statement and instance counts, read from evidence/*.json
seeded – the seeded-change matrix read from seeded/*/meta.json
benign – the behaviour-preserving change list read from benign/*/meta.json"""
import json, os, re, glob
V = os.path.dirname(os.path.dirname(os.path.abspath(__file__)))

def rules():
    out = []
    for f in sorted(glob.glob(os.path.join(V, 'evidence', 'C*.json'))):
        e = json.load(open(f)); c = e['coverage']
        out.append('**%s** — %d obligations, %d functions analysed, %d paths explored' % (e['property_id'], c['obligations'], c['functions_analysed'], c['paths_explored']))
        out.append('')
        for rid, text in c['rules'].items():
            n = c['per_rule'].get(rid, {})
            cnt = n.get('instances', n) if isinstance(n, dict) else n
            out.append('* `%s` (%s) %s' % (rid, cnt, text))
        out.append('')
    return '\n'.join(out)

def seeded():
    rows = []
    for d in sorted(glob.glob(os.path.join(V, 'seeded', '*', 'meta.json'))):
        m = json.load(open(d))
        fired = m.get('checks_that_fire', {})
        own = m['breaks_property']
        rows.append((m['id'], own, fired))
    out = ['| seeded change | property | own check: rules that fire | other checks that fire |', '|---|---|---|---|']
    miss = 0
    for sid, own, fired in rows:
        o = ', '.join(fired.get(own, [])) or '**missed**'
        miss += own not in fired
        others = ', '.join('%s (%s)' % (k, ', '.join(v)) for k, v in sorted(fired.items()) if k != own) or '–'
        out.append('| %s | %s | %s | %s |' % (sid, own, o, others))
    out.append('')
    out.append('%d seeded changes; %d caught by the check of the property they were written against.' % (len(rows), len(rows) - miss))
    return '\n'.join(out)

def benign():
    rows = []
    for d in sorted(glob.glob(os.path.join(V, 'benign', '*', 'meta.json'))):
        m = json.load(open(d))
        rows.append(m)
    if not rows:
        return '(none stored)'
    out = ['| behaviour-preserving change | what | checks that alarm |', '|---|---|---|']
    for m in rows:
        out.append('| %s | %s | %s |' % (m['id'], m['what'], ', '.join('%s (%s)' % (k, ', '.join(v)) for k, v in sorted(m.get('checks_that_fire', {}).items())) or 'none'))
    out.append('')
    out.append('%d behaviour-preserving changes; %d leave all 20 checks silent.' % (len(rows), sum(1 for m in rows if not m.get('checks_that_fire'))))
    return '\n'.join(out)

p = os.path.join(V, 'DESIGN.md')
s = open(p).read()
for name, fn in (('rules', rules), ('seeded', seeded), ('benign', benign)):
    b, e = '<!-- BEGIN %s -->' % name, '<!-- END %s -->' % name
    if b in s and e in s:
        i, j = s.index(b) + len(b), s.index(e)
        s = s[:i] + '\n' + fn() + '\n' + s[j:]
open(p, 'w').write(s)
print('DESIGN.md tables regenerated')
