#!/bin/bash
# tools/confirm_seed2.sh <worktree> <a|b>: confirm one of two seeded changes delivered as mutant_<x>.diff + tests/demo_<x>.rs
set -u
W="$1"; X="$2"; cd "$W" || exit 2
export CARGO_NET_OFFLINE=true
[ -z "$(git diff -- src)" ] || { echo "TREE_NOT_CLEAN"; git checkout -- src; }
# only the demo of this change may be present while the existing suite runs
H="$W/.confirm_hold"; mkdir -p "$H"; mv "$H"/*.rs tests/ 2>/dev/null; for f in tests/demo_*.rs; do [ "$f" = "tests/demo_$X.rs" ] || mv "$f" "$H"/ 2>/dev/null; done
git apply mutant_$X.diff || { echo "APPLY failed"; exit 1; }
cargo build --offline >/dev/null 2>&1 && echo "BUILD ok" || echo "BUILD failed"
S1=$(cargo test --offline --lib 2>&1 | grep -E "^test result" | head -1)
S2=$(cargo test --offline -p codegen 2>&1 | grep -E "^test result" | head -1)
S3=$(cargo test --offline --doc 2>&1 | grep -E "^test result" | head -1)
echo "SUITE lib: $S1 | codegen: $S2 | doc: $S3"
D1=$(cargo test --offline --test demo_$X 2>&1 | grep -E "^test result" | head -1)
echo "DEMO with change: $D1"
git apply -R mutant_$X.diff
D2=$(cargo test --offline --test demo_$X 2>&1 | grep -E "^test result" | head -1)
echo "DEMO without change: $D2"
mv "$H"/*.rs tests/ 2>/dev/null; rmdir "$H"
