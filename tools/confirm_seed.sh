#!/bin/bash
# tools/confirm_seed.sh <worktree>: confirm a seeded change in its scratch worktree:
# (1) source diff == mutant.diff, (2) builds, (3) existing suite passes with the change, (4) demo fails with / passes without.
set -u
W="$1"; cd "$W" || exit 2
export CARGO_NET_OFFLINE=true
git diff -- src > /tmp/confirm_cur.diff
if ! diff -q /tmp/confirm_cur.diff mutant.diff >/dev/null; then echo "DIFF_MISMATCH"; fi
cargo build --offline >/dev/null 2>&1 && echo "BUILD ok" || { echo "BUILD failed"; exit 1; }
S1=$(cargo test --offline --lib 2>&1 | grep -E "^test result" | head -1)
S2=$(cargo test --offline -p codegen 2>&1 | grep -E "^test result" | head -1)
S3=$(cargo test --offline --doc 2>&1 | grep -E "^test result" | head -1)
echo "SUITE lib: $S1 | codegen: $S2 | doc: $S3"
D1=$(cargo test --offline --test demo 2>&1 | grep -E "^test result" | head -1)
echo "DEMO with change: $D1"
git apply -R mutant.diff || { echo "REVERT failed"; exit 1; }
D2=$(cargo test --offline --test demo 2>&1 | grep -E "^test result" | head -1)
echo "DEMO without change: $D2"
git apply mutant.diff
