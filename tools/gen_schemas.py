#!/usr/bin/env python3
"""Writes tables/schemas.json: the REVIEWED translation schema of every code-generation form.
The reference terms below were written by hand from doc/translation.md and the book (see tables/schemas.md for the
form-by-form argument); they are compared *semantically* with what the code emits, so they are deliberately spelled the
way the documentation spells them, not the way compile.rs does."""
import json, os
A = '⟨compile(tuple(args(self), self))⟩'
BLK = 'compile::compile_blk'
EX = 'compile::<impl ast::Expression>::compile'
SE = 'compile::<impl ast::SingleExpression>::compile'
CA = 'compile::<impl ast::Call>::compile'
MA = 'compile::<impl ast::Match>::compile'
PR = 'compile::<impl ast::Program>::compile'
U = 'unify(target, to_unfinalized(from(ty(self)), ctx(scope)))'
REST = '⟨compile_blk(stmts, AddWithOverflow(index, 1_usize).0, last_expr)⟩'
def child(v): return '⟨compile(body(name(self)@%s.0)) in child(params_pattern(name(self)@%s.0))⟩' % (v, v)
def cev(v): return ['compile(tuple(args(self), self))', 'child(params_pattern(name(self)@%s.0))' % v, 'compile(body(name(self)@%s.0)) in child(params_pattern(name(self)@%s.0))' % (v, v)]
rows = [
 # ---- blocks
 dict(fn=BLK, form='Ge(index, len(stmts))=0 & stmts[index]=Assignment', meaning='let p: B = b; c  ↦  comp (pair ⟦b⟧ iden) ⟦c⟧ : the value of b is put to the left of the old environment, c is compiled after p was pushed',
      term='comp(pair(⟨compile(expression(stmts[index]@Assignment.0))⟩, iden), %s)' % REST,
      events=['compile(expression(stmts[index]@Assignment.0))', 'insert(pattern(stmts[index]@Assignment.0))', 'compile_blk(stmts, AddWithOverflow(index, 1_usize).0, last_expr)']),
 dict(fn=BLK, form='Ge(index, len(stmts))=0 & stmts[index]=Expression', meaning='b; c  ↦  comp (pair ⟦b⟧ ⟦c⟧) (drop iden): both evaluated, value of c',
      term='comp(pair(⟨compile(stmts[index]@Expression.0)⟩, %s), drop(iden))' % REST,
      events=['compile(stmts[index]@Expression.0)', 'compile_blk(stmts, AddWithOverflow(index, 1_usize).0, last_expr)']),
 dict(fn=BLK, form='Ge(index, len(stmts))=!0 & last_expr=None', meaning='empty tail ↦ unit', term='unit', events=[]),
 dict(fn=BLK, form='Ge(index, len(stmts))=!0 & last_expr=Some', meaning='tail expression ↦ its own translation under the block environment', term='⟨compile(last_expr@Some.0)⟩', events=['compile(last_expr@Some.0)']),
 dict(fn=EX, form='inner(self)=Single', meaning='single expression ↦ itself', term='⟨compile(inner(self)@Single.0)⟩', events=['compile(inner(self)@Single.0)']),
 dict(fn=EX, form='inner(self)=Block', meaning='{ stmts; e } ↦ block translation inside a fresh scope that is popped afterwards (also on the error path: pop follows unconditionally)',
      term='⟨compile_blk(inner(self)@Block.0, 0_usize, inner(self)@Block.1)⟩',
      events=['push_scope()', 'compile_blk(inner(self)@Block.0, 0_usize, inner(self)@Block.1)', 'pop_scope()']),
 # ---- single expressions
 dict(fn=SE, form='inner(self)=Constant', meaning='literal ↦ comp unit (const v)', term='comp(unit, scribe[from(inner(self)@Constant.0)])', events=[U]),
 dict(fn=SE, form='inner(self)=Parameter', meaning='param::N ↦ comp unit (const argument N): same schema as a literal', term='comp(unit, scribe[from(get_argument(scope, inner(self)@Parameter.0))])', events=[U]),
 dict(fn=SE, form='inner(self)=Witness', meaning='witness::N ↦ witness node named N', term='witness[inner(self)@Witness.0]', events=[U]),
 dict(fn=SE, form='inner(self)=Variable', meaning='v ↦ Ξ(v): selector into the environment (LOOKUP summary, R01.4)', term='⟨LOOKUP[Identifier{inner(self)@Variable.0}]⟩', events=[U]),
 dict(fn=SE, form='inner(self)=Expression', meaning='(e) ↦ ⟦e⟧', term='⟨compile(inner(self)@Expression.0)⟩', events=['compile(inner(self)@Expression.0)', U]),
 dict(fn=SE, form='inner(self)=Tuple', meaning='(e1,…,en) ↦ balanced pair tree of the element translations, unit when empty (TUPLE summary, R01.5)', term='⟨TUPLE[inner(self)@Tuple.0]⟩', events=[U]),
 dict(fn=SE, form='inner(self)=Array', meaning='[e1,…,en] ↦ same layout as the tuple', term='⟨TUPLE[inner(self)@Array.0]⟩', events=[U]),
 dict(fn=SE, form='inner(self)=List', meaning='list![…] ↦ partition into blocks under the bound of the list type (LIST summary, R01.6)', term='⟨LIST[inner(self)@List.0; unwrap(as_list(ty(self))).1]⟩', events=[U]),
 dict(fn=SE, form='inner(self)=Option & inner(self)@Option.0=None', meaning='None ↦ injl unit', term='injl(unit)', events=[U]),
 dict(fn=SE, form='inner(self)=Option & inner(self)@Option.0=Some', meaning='Some(e) ↦ injr ⟦e⟧', term='injr(⟨compile(inner(self)@Option.0@Some.0)⟩)', events=['compile(inner(self)@Option.0@Some.0)', U]),
 dict(fn=SE, form='inner(self)=Either & inner(self)@Either.0=Left', meaning='Left(e) ↦ injl ⟦e⟧', term='injl(⟨compile(inner(self)@Either.0@Left.0)⟩)', events=['compile(inner(self)@Either.0@Left.0)', U]),
 dict(fn=SE, form='inner(self)=Either & inner(self)@Either.0=Right', meaning='Right(e) ↦ injr ⟦e⟧', term='injr(⟨compile(inner(self)@Either.0@Right.0)⟩)', events=['compile(inner(self)@Either.0@Right.0)', U]),
 dict(fn=SE, form='inner(self)=Call', meaning='call ↦ call translation', term='⟨compile(inner(self)@Call.0)⟩', events=['compile(inner(self)@Call.0)', U]),
 dict(fn=SE, form='inner(self)=Match', meaning='match ↦ match translation', term='⟨compile(inner(self)@Match.0)⟩', events=['compile(inner(self)@Match.0)', U]),
 # ---- calls (debug marker wrapper replaced by `args ; body`, justified by R14.1)
 dict(fn=CA, form='name(self)=Jet', meaning='jet::j(args) ↦ comp ⟦args⟧ j', term='comp(%s, jet[name(self)@Jet.0])' % A, events=['compile(tuple(args(self), self))']),
 dict(fn=CA, form='name(self)=UnwrapLeft', meaning='unwrap_left(a) ↦ comp (pair ⟦a⟧ unit) (assertl (take iden) #fail): Left payload, fails on Right',
      term='comp(pair(%s, unit), assertl(take(iden), fail(simplicity::FailEntropy::ZERO)))' % A, events=['compile(tuple(args(self), self))']),
 dict(fn=CA, form='name(self)=UnwrapRight', meaning='unwrap_right(a) ↦ comp (pair ⟦a⟧ unit) (assertr #fail (take iden)): Right payload, fails on Left',
      term='comp(pair(%s, unit), assertr(fail(simplicity::FailEntropy::ZERO), take(iden)))' % A, events=['compile(tuple(args(self), self))']),
 dict(fn=CA, form='name(self)=Unwrap', meaning='unwrap(a) ↦ as unwrap_right (Some = right)',
      term='comp(pair(%s, unit), assertr(fail(simplicity::FailEntropy::ZERO), take(iden)))' % A, events=['compile(tuple(args(self), self))']),
 dict(fn=CA, form='name(self)=IsNone', meaning='is_none(a) ↦ comp (pair ⟦a⟧ unit) (case true false): None (left) ↦ true = injr unit, Some ↦ false = injl unit',
      term='comp(pair(%s, unit), case(injr(unit), injl(unit)))' % A, events=['compile(tuple(args(self), self))']),
 dict(fn=CA, form='name(self)=Assert', meaning='assert!(b) ↦ comp ⟦b⟧ jet verify', term='comp(%s, jet[Verify{}])' % A, events=['compile(tuple(args(self), self))']),
 dict(fn=CA, form='name(self)=Panic', meaning='panic!() ↦ comp ⟦()⟧ fail', term='comp(%s, fail)' % A, events=['compile(tuple(args(self), self))']),
 dict(fn=CA, form='name(self)=Debug', meaning='dbg!(a) ↦ ⟦a⟧ (identity)', term=A, events=['compile(tuple(args(self), self))']),
 dict(fn=CA, form='name(self)=TypeCast', meaning='<T>::into(a) ↦ ⟦a⟧ unchanged (structurally equal types)', term=A, events=['compile(tuple(args(self), self))']),
 dict(fn=CA, form='name(self)=Custom', meaning='f(args) ↦ comp ⟦args⟧ ⟦body of f⟧ with the body compiled in a child scope that contains only the parameter pattern',
      term='comp(%s, %s)' % (A, child('Custom')), events=cev('Custom')),
 dict(fn=CA, form='name(self)=Fold', meaning='fold::<f,N>(list, init) ↦ comp ⟦(list, init)⟧ (list_fold N ⟦body of f⟧) (C08)',
      term='comp(%s, ⟨list_fold(name(self)@Fold.1, %s)⟩)' % (A, child('Fold')[1:-1]), events=cev('Fold') + ['list_fold(name(self)@Fold.1, %s)' % child('Fold')[1:-1]]),
 dict(fn=CA, form='name(self)=ForWhile', meaning='for_while::<f>(acc, ctx) ↦ comp ⟦(acc, ctx)⟧ (for_while width ⟦body of f⟧) (C09)',
      term='comp(%s, ⟨for_while(name(self)@ForWhile.1, %s)⟩)' % (A, child('ForWhile')[1:-1]), events=cev('ForWhile') + ['for_while(name(self)@ForWhile.1, %s)' % child('ForWhile')[1:-1]]),
 # ---- match
 dict(fn=MA, form='', meaning='match a {L(x) => l, R(y) => r} ↦ comp (pair ⟦a⟧ iden) (case ⟦l⟧ ⟦r⟧): scrutinee under the outer environment; each arm under push; insert(own binder); pop',
      term='comp(pair(⟨compile(scrutinee(self))⟩, iden), case(⟨compile(expression(left(self)))⟩, ⟨compile(expression(right(self)))⟩))',
      events=['push_scope()', 'insert(map_or(cloned(as_variable(pattern(left(self)))), Ignore{}, Identifier))', 'compile(expression(left(self)))', 'pop_scope()',
              'push_scope()', 'insert(map_or(cloned(as_variable(pattern(right(self)))), Ignore{}, Identifier))', 'compile(expression(right(self)))', 'pop_scope()', 'compile(scrutinee(self))']),
 dict(fn=PR, form='', meaning='program ↦ ⟦main⟧ in the initial scope [[_]] built from the call tracker, the arguments and the debug flag',
      term='⟨compile(main(self), new(call_tracker(self), arguments, include_debug_symbols))⟩',
      events=['new(call_tracker(self), arguments, include_debug_symbols)', 'compile(main(self), new(call_tracker(self), arguments, include_debug_symbols))']),
]
out = os.path.join(os.path.dirname(os.path.dirname(os.path.abspath(__file__))), 'tables', 'schemas.json')
json.dump({'comment': 'reviewed translation schemas; generated by tools/gen_schemas.py; argued in tables/schemas.md', 'rows': rows}, open(out, 'w'), indent=1, ensure_ascii=False)
print(len(rows), 'rows')
