#!/usr/bin/env python3
"""tools/trymut.py <props comma list> <file under /repo> <old> <new> : apply a one-off textual edit to /repo, run the checks, undo."""
import subprocess, sys
props, f, old, new = sys.argv[1:5]
p = '/repo/' + f
s = open(p).read()
assert s.count(old) >= 1, 'old text not found'
open(p, 'w').write(s.replace(old, new, 1))
try:
    for pid in props.split(','):
        r = subprocess.run(['/verif/check', pid, 'quick'], stdout=subprocess.PIPE, stderr=subprocess.STDOUT, text=True)
        lines = [l for l in r.stdout.splitlines() if 'VIOLATION' in l or l.startswith('  rule') and 'failed=0' not in l and 'instances=' in l or (l.startswith('  rule') and ' at ' in l)]
        print('== %s exit=%d' % (pid, r.returncode))
        print('\n'.join(lines[:14]))
finally:
    subprocess.run(['git', '-C', '/repo', 'checkout', '--', f])
