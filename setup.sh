#!/bin/bash
# Build the verification engines offline and warm the dependency build used for fact extraction.
set -e
cd "$(dirname "$0")"
export CARGO_NET_OFFLINE=true
(cd engines/simfacts && cargo build --release --offline)
(cd engines/pestdump && cargo build --release --offline)
python3 -m sa.extract default serde >/dev/null
echo "setup ok"
