//! Compile-fail witnesses (E4): invariants of simfony that are enforced by the type system rather than by
//! control flow. Each witness is a `compile_fail,<code>` doc-test paired with a compiling twin (`no_run`)
//! that differs only in the offending construction, so a witness whose path is merely wrong cannot pass.

/// W1 - the witness types a compiled program is checked against are the ones recorded when it was compiled:
/// `CompiledProgram` cannot be assembled from parts outside the crate (C05, C02).
///
/// ```compile_fail,E0451
/// let d = simfony::CompiledProgram::default();
/// let _p = simfony::CompiledProgram { simplicity: unimplemented!(), ..d };
/// ```
///
/// Twin:
/// ```no_run
/// let d = simfony::CompiledProgram::default();
/// let _p: simfony::CompiledProgram = d;
/// ```
pub struct W1;

/// W2 - only the invariant-preserving constructors can make a `PairBuilder`, which is what makes
/// `pair(..).unwrap()` infallible (C03).
///
/// ```compile_fail,E0603
/// use simfony::simplicity::node::CoreConstructible;
/// let ctx = simfony::simplicity::types::Context::new();
/// let node = simfony::ProgNode::unit(&ctx);
/// let _b = simfony::named::PairBuilder(node);
/// ```
///
/// Twin:
/// ```no_run
/// let ctx = simfony::simplicity::types::Context::new();
/// let _b = simfony::named::PairBuilder::<simfony::ProgNode>::unit(&ctx);
/// ```
pub struct W2;

/// W3 - every redeem program handed out went through `satisfy`: `SatisfiedProgram` has no public constructor
/// besides `new`, which calls `satisfy` (C05, C18).
///
/// ```compile_fail,E0451
/// fn f(p: simfony::SatisfiedProgram) -> simfony::SatisfiedProgram {
///     simfony::SatisfiedProgram { debug_symbols: p.debug_symbols().clone(), ..p }
/// }
/// ```
///
/// Twin:
/// ```no_run
/// fn f(p: simfony::SatisfiedProgram) -> simfony::SatisfiedProgram {
///     let _d = p.debug_symbols().clone();
///     p
/// }
/// ```
pub struct W3;
