use pest_meta::ast::{Expr, RuleType};
use pest_meta::parser::{self, Rule};
fn esc(s: &str) -> String { format!("{:?}", s) }
fn ex(e: &Expr) -> String {
    match e {
        Expr::Str(s) => format!("{{\"k\":\"str\",\"v\":{}}}", esc(s)),
        Expr::Insens(s) => format!("{{\"k\":\"insens\",\"v\":{}}}", esc(s)),
        Expr::Range(a, b) => format!("{{\"k\":\"range\",\"a\":{},\"b\":{}}}", esc(a), esc(b)),
        Expr::Ident(s) => format!("{{\"k\":\"ident\",\"v\":{}}}", esc(s)),
        Expr::PosPred(a) => format!("{{\"k\":\"pos\",\"e\":{}}}", ex(a)),
        Expr::NegPred(a) => format!("{{\"k\":\"neg\",\"e\":{}}}", ex(a)),
        Expr::Seq(a, b) => format!("{{\"k\":\"seq\",\"a\":{},\"b\":{}}}", ex(a), ex(b)),
        Expr::Choice(a, b) => format!("{{\"k\":\"choice\",\"a\":{},\"b\":{}}}", ex(a), ex(b)),
        Expr::Opt(a) => format!("{{\"k\":\"opt\",\"e\":{}}}", ex(a)),
        Expr::Rep(a) => format!("{{\"k\":\"rep\",\"e\":{}}}", ex(a)),
        Expr::RepOnce(a) => format!("{{\"k\":\"rep1\",\"e\":{}}}", ex(a)),
        other => format!("{{\"k\":\"other\",\"v\":{}}}", esc(&format!("{:?}", other))),
    }
}
fn main() {
    let src = std::fs::read_to_string(std::env::args().nth(1).unwrap()).unwrap();
    let pairs = parser::parse(Rule::grammar_rules, &src).unwrap();
    let ast = parser::consume_rules(pairs).unwrap();
    let mut out = vec![];
    for r in &ast {
        let ty = match r.ty { RuleType::Normal => "normal", RuleType::Silent => "silent", RuleType::Atomic => "atomic", RuleType::CompoundAtomic => "compound", RuleType::NonAtomic => "nonatomic" };
        out.push(format!("{{\"name\":{},\"ty\":\"{}\",\"e\":{}}}", esc(&r.name), ty, ex(&r.expr)));
    }
    println!("[{}]", out.join(",\n"));
}
