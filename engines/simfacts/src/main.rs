#![feature(rustc_private)]
extern crate rustc_driver;
extern crate rustc_hir;
extern crate rustc_interface;
extern crate rustc_middle;
extern crate rustc_span;
extern crate rustc_abi;

use rustc_driver::Compilation;
use rustc_hir::def::DefKind;
use rustc_middle::mir::*;
use rustc_middle::ty::{self, TyCtxt, Instance, TypingEnv};
use std::fmt::Write as _;
use std::io::Write;

fn esc(s: &str) -> String {
    let mut o = String::with_capacity(s.len() + 2);
    o.push('"');
    for c in s.chars() {
        match c {
            '"' => o.push_str("\\\""),
            '\\' => o.push_str("\\\\"),
            '\n' => o.push_str("\\n"),
            '\t' => o.push_str("\\t"),
            '\r' => o.push_str("\\r"),
            c if (c as u32) < 0x20 => { let _ = write!(o, "\\u{:04x}", c as u32); }
            c => o.push(c),
        }
    }
    o.push('"');
    o
}

struct Cx<'tcx> { tcx: TyCtxt<'tcx>, did: rustc_span::def_id::DefId }

impl<'tcx> Cx<'tcx> {
    fn place(&self, body: &Body<'tcx>, p: &Place<'tcx>) -> String {
        let mut s = format!("{{\"l\":{},\"p\":[", p.local.as_usize());
        let mut first = true;
        let mut ty = PlaceTy::from_ty(body.local_decls[p.local].ty);
        for elem in p.projection.iter() {
            if !first { s.push(','); }
            first = false;
            match elem {
                ProjectionElem::Deref => s.push_str("\"*\""),
                ProjectionElem::Field(f, _) => {
                    // field name if ADT
                    let mut name = format!("{}", f.as_usize());
                    if let ty::Adt(adt, _) = ty.ty.kind() {
                        let v = match ty.variant_index { Some(v) => v, None => rustc_abi::FIRST_VARIANT };
                        if adt.is_enum() || adt.is_struct() {
                            if let Some(fd) = adt.variant(v).fields.get(f) { name = format!("{}:{}", f.as_usize(), fd.name); }
                        }
                    }
                    let _ = write!(s, "{}", esc(&format!(".{}", name)));
                }
                ProjectionElem::Downcast(name, idx) => {
                    let n = name.map(|n| n.to_string()).unwrap_or(format!("{}", idx.as_usize()));
                    let _ = write!(s, "{}", esc(&format!("as {}", n)));
                }
                ProjectionElem::Index(l) => { let _ = write!(s, "{}", esc(&format!("[_{}]", l.as_usize()))); }
                ProjectionElem::ConstantIndex { offset, from_end, .. } => { let _ = write!(s, "{}", esc(&format!("[c{}{}]", if from_end {"-"} else {""}, offset))); }
                ProjectionElem::Subslice { from, to, from_end } => { let _ = write!(s, "{}", esc(&format!("[{}..{}{}]", from, if from_end {"-"} else {""}, to))); }
                _ => { let _ = write!(s, "{}", esc("?")); }
            }
            ty = ty.projection_ty(self.tcx, elem);
        }
        s.push_str("]}");
        s
    }
    fn operand(&self, body: &Body<'tcx>, o: &Operand<'tcx>) -> String {
        match o {
            Operand::Copy(p) => format!("{{\"k\":\"copy\",\"pl\":{}}}", self.place(body, p)),
            Operand::Move(p) => format!("{{\"k\":\"move\",\"pl\":{}}}", self.place(body, p)),
            Operand::Constant(c) => {
                let ty = c.const_.ty();
                let mut def = String::new();
                let mut inst = String::new();
                let mut resolved = false;
                match ty.kind() {
                    ty::FnDef(d, args) => {
                        let r = Instance::try_resolve(self.tcx, TypingEnv::post_analysis(self.tcx, self.did), *d, args).ok().flatten();
                        match r {
                            Some(i) => { def = self.tcx.def_path_str(i.def_id()); inst = self.tcx.def_path_str_with_args(i.def_id(), i.args); resolved = true; }
                            None => { def = self.tcx.def_path_str(*d); inst = self.tcx.def_path_str_with_args(*d, args); }
                        }
                    }
                    ty::Closure(d, _) => { def = self.tcx.def_path_str(*d); resolved = true; }
                    _ => {}
                }
                format!("{{\"k\":\"const\",\"v\":{},\"ty\":{},\"def\":{},\"inst\":{},\"res\":{}}}", esc(&format!("{}", c.const_)), esc(&format!("{}", ty)), esc(&def), esc(&inst), resolved)
            }
            #[allow(unreachable_patterns)]
            _ => format!("{{\"k\":\"other\",\"v\":{}}}", esc(&format!("{:?}", o))),
        }
    }
    fn rvalue(&self, body: &Body<'tcx>, r: &Rvalue<'tcx>) -> String {
        match r {
            Rvalue::Use(o, ..) => format!("{{\"k\":\"use\",\"o\":{}}}", self.operand(body, o)),
            Rvalue::Ref(_, bk, p) => format!("{{\"k\":\"ref\",\"mut\":{},\"pl\":{}}}", matches!(bk, BorrowKind::Mut{..}), self.place(body, p)),
            Rvalue::RawPtr(_, p) => format!("{{\"k\":\"rawptr\",\"pl\":{}}}", self.place(body, p)),
            Rvalue::Cast(ck, o, t) => format!("{{\"k\":\"cast\",\"ck\":{},\"o\":{},\"ty\":{}}}", esc(&format!("{:?}", ck)), self.operand(body, o), esc(&format!("{}", t))),
            Rvalue::BinaryOp(op, ab) => format!("{{\"k\":\"bin\",\"op\":{},\"a\":{},\"b\":{}}}", esc(&format!("{:?}", op)), self.operand(body, &ab.0), self.operand(body, &ab.1)),
            Rvalue::UnaryOp(op, a) => format!("{{\"k\":\"un\",\"op\":{},\"a\":{}}}", esc(&format!("{:?}", op)), self.operand(body, a)),
            Rvalue::Discriminant(p) => {
                let pty = p.ty(body, self.tcx).ty;
                let mut vars = String::from("[");
                let mut adtname = String::new();
                if let ty::Adt(adt, _) = pty.kind() {
                    adtname = self.tcx.def_path_str(adt.did());
                    if adt.is_enum() {
                        let mut first = true;
                        for (vi, d) in adt.discriminants(self.tcx) {
                            if !first { vars.push(','); }
                            first = false;
                            let _ = write!(vars, "[{},{}]", d.val, esc(&adt.variant(vi).name.to_string()));
                        }
                    }
                }
                vars.push(']');
                format!("{{\"k\":\"discr\",\"pl\":{},\"adt\":{},\"vars\":{}}}", self.place(body, p), esc(&adtname), vars)
            }
            Rvalue::Aggregate(kind, ops) => {
                let kd = match &**kind {
                    AggregateKind::Adt(d, vi, _, _, _) => {
                        let adt = self.tcx.adt_def(*d);
                        format!("adt:{}::{}", self.tcx.def_path_str(*d), adt.variant(*vi).name)
                    }
                    AggregateKind::Closure(d, _) => format!("closure:{}", self.tcx.def_path_str(*d)),
                    AggregateKind::Tuple => "tuple".to_string(),
                    AggregateKind::Array(_) => "array".to_string(),
                    k => format!("{:?}", k),
                };
                let os: Vec<String> = ops.iter().map(|o| self.operand(body, o)).collect();
                format!("{{\"k\":\"agg\",\"kind\":{},\"ops\":[{}]}}", esc(&kd), os.join(","))
            }
            Rvalue::Repeat(o, n) => format!("{{\"k\":\"repeat\",\"o\":{},\"n\":{}}}", self.operand(body, o), esc(&format!("{}", n))),
            other => format!("{{\"k\":\"other\",\"v\":{}}}", esc(&format!("{:?}", other))),
        }
    }
}


fn dump_body<'tcx>(tcx: TyCtxt<'tcx>, did: rustc_span::def_id::DefId, body: &Body<'tcx>, path: &str, out: &mut String, firstfn: &mut bool) {
    let sm = tcx.sess.source_map();
    let kind = tcx.def_kind(did);
    let path = path.to_string();
            let cx = Cx { tcx, did };
            let span = tcx.def_span(did);
            let loc = sm.span_to_diagnostic_string(span);
            let mut from_exp = span.from_expansion();
            if from_exp {
                // functions written inside a local macro_rules! body are user code, not generated code
                let ed = span.ctxt().outer_expn_data();
                if let rustc_span::hygiene::ExpnKind::Macro(rustc_span::hygiene::MacroKind::Bang, _) = ed.kind {
                    if let Some(md) = ed.macro_def_id { if md.is_local() { from_exp = false; } }
                }
            }
            if !*firstfn { out.push_str(",\n"); }
            *firstfn = false;
            let _ = write!(out, "{{\"path\":{},\"kind\":{},\"loc\":{},\"macro\":{},\"argc\":{},", esc(&path), esc(&format!("{:?}", kind)), esc(&loc), from_exp, body.arg_count);
            // locals
            out.push_str("\"locals\":[");
            for (i, d) in body.local_decls.iter().enumerate() {
                if i > 0 { out.push(','); }
                out.push_str(&esc(&format!("{}", d.ty)));
            }
            out.push_str("],\"names\":{");
            let mut firstn = true;
            for v in &body.var_debug_info {
                if let VarDebugInfoContents::Place(p) = &v.value {
                    if p.projection.is_empty() {
                        if !firstn { out.push(','); }
                        firstn = false;
                        let _ = write!(out, "{}:{}", esc(&format!("{}", p.local.as_usize())), esc(&v.name.to_string()));
                    }
                }
            }
            out.push_str("},\"blocks\":[");
            for (bb, data) in body.basic_blocks.iter_enumerated() {
                if bb.index() > 0 { out.push(','); }
                let _ = write!(out, "{{\"id\":{},\"cleanup\":{},\"stmts\":[", bb.index(), data.is_cleanup);
                let mut firsts = true;
                for st in &data.statements {
                    if let StatementKind::Assign(b) = &st.kind {
                        if !firsts { out.push(','); }
                        firsts = false;
                        let line = sm.lookup_char_pos(st.source_info.span.lo()).line;
                        let _ = write!(out, "{{\"lhs\":{},\"rv\":{},\"line\":{}}}", cx.place(body, &b.0), cx.rvalue(body, &b.1), line);
                    }
                }
                out.push_str("],\"term\":");
                let term = data.terminator();
                let tspan = term.source_info.span;
                let line = sm.lookup_char_pos(tspan.lo()).line;
                let texp = tspan.from_expansion();
                let mname = if texp { tspan.ctxt().outer_expn_data().kind.descr() } else { String::new() };
                match &term.kind {
                    TerminatorKind::Call { func, args, destination, target, .. } => {
                        let f = cx.operand(body, func);
                        let a: Vec<String> = args.iter().map(|a| cx.operand(body, &a.node)).collect();
                        let _ = write!(out, "{{\"k\":\"call\",\"f\":{},\"args\":[{}],\"dest\":{},\"target\":{},\"line\":{},\"mac\":{}}}", f, a.join(","), cx.place(body, destination), target.map(|t| t.index() as i64).unwrap_or(-1), line, esc(&mname));
                    }
                    TerminatorKind::SwitchInt { discr, targets } => {
                        let ts: Vec<String> = targets.iter().map(|(v, b)| format!("[{},{}]", v, b.index())).collect();
                        let _ = write!(out, "{{\"k\":\"switch\",\"d\":{},\"targets\":[{}],\"otherwise\":{},\"line\":{}}}", cx.operand(body, discr), ts.join(","), targets.otherwise().index(), line);
                    }
                    TerminatorKind::Assert { cond, expected, msg, target, .. } => {
                        let _ = write!(out, "{{\"k\":\"assert\",\"cond\":{},\"expected\":{},\"msg\":{},\"target\":{},\"line\":{},\"mac\":{}}}", cx.operand(body, cond), expected, esc(&format!("{:?}", msg)), target.index(), line, esc(&mname));
                    }
                    TerminatorKind::Goto { target } => { let _ = write!(out, "{{\"k\":\"goto\",\"target\":{}}}", target.index()); }
                    TerminatorKind::Return => out.push_str("{\"k\":\"return\"}"),
                    TerminatorKind::Unreachable => out.push_str("{\"k\":\"unreachable\"}"),
                    TerminatorKind::Drop { place, target, .. } => { let _ = write!(out, "{{\"k\":\"drop\",\"pl\":{},\"target\":{}}}", cx.place(body, place), target.index()); }
                    TerminatorKind::UnwindResume => out.push_str("{\"k\":\"resume\"}"),
                    other => { let _ = write!(out, "{{\"k\":\"other\",\"v\":{}}}", esc(&format!("{:?}", other))); }
                }
                out.push('}');
            }
            out.push_str("]}");
        
}

struct Cb;
impl rustc_driver::Callbacks for Cb {
    fn after_analysis<'tcx>(&mut self, _c: &rustc_interface::interface::Compiler, tcx: TyCtxt<'tcx>) -> Compilation {
        let krate = tcx.crate_name(rustc_span::def_id::LOCAL_CRATE).to_string();
        if krate != "simfony" && krate != "simc" && krate != "codegen" { return Compilation::Continue; }
        let sm = tcx.sess.source_map();
        let mut out = String::new();
        out.push_str("{\"crate\":"); out.push_str(&esc(&krate)); out.push_str(",\"fns\":[\n");
        let mut firstfn = true;
        for ldid in tcx.hir_body_owners() {
            let did = ldid.to_def_id();
            let kind = tcx.def_kind(did);
            if matches!(kind, DefKind::Const { .. } | DefKind::AssocConst { .. }) {
                let body = tcx.mir_for_ctfe(did);
                let path = tcx.def_path_str(did);
                dump_body(tcx, did, body, &path, &mut out, &mut firstfn);
                continue;
            }
            if !matches!(kind, DefKind::Fn | DefKind::AssocFn | DefKind::Closure) { continue; }
            let body = tcx.optimized_mir(did);
            let path = tcx.def_path_str(did);
            dump_body(tcx, did, body, &path, &mut out, &mut firstfn);
            for (pi, pbody) in tcx.promoted_mir(did).iter_enumerated() {
                let ppath = format!("{}::promoted[{}]", path, pi.index());
                dump_body(tcx, did, pbody, &ppath, &mut out, &mut firstfn);
            }
        }
        out.push_str("\n]}\n");
        let p = std::env::var("FACTS_DIR").unwrap_or("/tmp".into());
        let mut f = std::fs::File::create(format!("{p}/facts-{krate}-{}.json", std::process::id())).unwrap();
        f.write_all(out.as_bytes()).unwrap();
        Compilation::Continue
    }
}

fn main() {
    let mut args: Vec<String> = std::env::args().collect();
    args.remove(1);
    rustc_driver::run_compiler(&args, &mut Cb);
}
